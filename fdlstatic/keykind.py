"""KD rule: canonical argument keys are Union[int, str]; uses that only work for
str keys must be guarded.

Sources: iteration variables over `__arguments__`, `__argument_tags__`,
`__argument_history__`, `ordered_arguments(...)` (unless
include_positional=False) and `metadata.argument_names`.  Sinks that require a
str: getattr/setattr/delattr/hasattr name argument, Attr()/BuildableAttr(),
cst.Name(), kwarg_to_cst(), validate_param_name().  Refiners:
isinstance(k, str|int) in if/elif/ternary/comprehension filter/early exit,
`k in X.parameters`.
"""
from __future__ import annotations

import ast
from typing import Callable, Dict, FrozenSet, List, Optional, Set, Tuple

from fdlstatic import cfg as cfg_lib
from fdlstatic.model import FuncInfo, norm_text, unparse, walk_function

S, I = 'str', 'int'
SI = frozenset({S, I})
KEYED_ATTRS = ('__arguments__', '__argument_tags__', '__argument_history__')


def _strip_wrappers(e):
  while isinstance(e, ast.Call) and isinstance(e.func, ast.Name) and e.func.id in (
      'list', 'set', 'sorted', 'tuple', 'frozenset', 'iter', 'reversed',
      'enumerate') and e.args:
    if e.func.id == 'enumerate':
      return None  # handled by caller
    e = e.args[0]
  return e


def keys_source(e) -> Optional[str]:
  """If iterating `e` yields canonical keys, returns 'keys'; if it yields

  (key, value) pairs returns 'items'; else None.
  """
  e0 = e
  e = _strip_wrappers(e)
  if e is None:
    return None
  if isinstance(e, ast.BinOp) and isinstance(e.op, (ast.BitOr, ast.BitAnd,
                                                     ast.Sub)):
    a, b = keys_source(e.left), keys_source(e.right)
    if isinstance(e.op, ast.Sub):
      return 'keys' if a == 'keys' else None
    if isinstance(e.op, ast.BitAnd):
      return 'keys' if a == 'keys' and b == 'keys' else None
    if a == 'keys' or b == 'keys':
      return 'keys'
    return None
  if isinstance(e, ast.Attribute):
    if e.attr in KEYED_ATTRS:
      return 'keys'
    if e.attr == 'argument_names':
      return 'keys'
    return None
  if isinstance(e, ast.Call) and isinstance(e.func, ast.Attribute):
    if e.func.attr in ('keys', 'items') and not e.args:
      base = e.func.value
      if _is_keyed_map(base):
        return 'keys' if e.func.attr == 'keys' else 'items'
    if e.func.attr == 'union' and _is_keyed_iter(e.func.value):
      return 'keys'
    return None
  if _is_ordered_arguments(e):
    return 'keys'
  return None


def _is_keyed_iter(e) -> bool:
  return keys_source(e) == 'keys'


def _is_ordered_arguments(e) -> bool:
  if isinstance(e, ast.Call) and unparse(e.func).split('.')[-1] == 'ordered_arguments':
    for k in e.keywords:
      if k.arg == 'include_positional' and isinstance(
          k.value, ast.Constant) and k.value.value is False:
        return False
    return True
  return False


def _is_keyed_map(e) -> bool:
  if isinstance(e, ast.Attribute) and e.attr in KEYED_ATTRS:
    return True
  if _is_ordered_arguments(e):
    return True
  return False


class KeyKind:
  """Flow-sensitive key-kind analysis of one function."""

  def __init__(self, f: FuncInfo, g: cfg_lib.CFG, map_vars: Set[str] = None):
    self.f = f
    self.g = g
    # locals bound to a keyed map: x = ordered_arguments(cfg)
    self.map_vars = set(map_vars or ())
    for n in walk_function(f.node):
      if isinstance(n, ast.Assign) and len(n.targets) == 1 and isinstance(
          n.targets[0], ast.Name) and _is_keyed_map(n.value):
        self.map_vars.add(n.targets[0].id)
    self.ok: List[Tuple[ast.AST, str]] = []
    self.bad: List[Tuple[ast.AST, str]] = []
    self.sources: List[Tuple[ast.AST, str]] = []
    # p = X.parameters.get(k[, None]): p is not None implies k is a str
    self.param_of: Dict[str, str] = {}
    for n in walk_function(f.node):
      if isinstance(n, ast.Assign) and len(n.targets) == 1 and isinstance(
          n.targets[0], ast.Name) and isinstance(n.value, ast.Call) and (
              isinstance(n.value.func, ast.Attribute) and
              n.value.func.attr == 'get' and isinstance(
                  n.value.func.value, ast.Attribute) and
              n.value.func.value.attr == 'parameters') and n.value.args and (
                  isinstance(n.value.args[0], ast.Name)):
        dflt = n.value.args[1] if len(n.value.args) > 1 else None
        if dflt is None or (isinstance(dflt, ast.Constant) and
                            dflt.value is None):
          self.param_of[n.targets[0].id] = n.value.args[0].id

  # -- sources
  def _src(self, it) -> Optional[str]:
    k = keys_source(it)
    if k:
      return k
    e = _strip_wrappers(it)
    if isinstance(e, ast.BinOp) and isinstance(e.op, (ast.BitOr, ast.BitAnd,
                                                       ast.Sub)):
      if isinstance(e.op, ast.Sub):
        return 'keys' if self._src(e.left) == 'keys' else None
      if isinstance(e.op, ast.BitAnd):
        both = self._src(e.left) == 'keys' and self._src(e.right) == 'keys'
        return 'keys' if both else None
      if self._src(e.left) == 'keys' or self._src(e.right) == 'keys':
        return 'keys'
      return None
    if isinstance(e, ast.Name) and e.id in self.map_vars:
      return 'keys'
    if isinstance(e, ast.Call) and isinstance(
        e.func, ast.Attribute) and e.func.attr in ('keys', 'items') and (
            isinstance(e.func.value, ast.Name) and
            e.func.value.id in self.map_vars):
      return 'keys' if e.func.attr == 'keys' else 'items'
    return None

  def bind_target(self, target, it, st: Dict[str, FrozenSet[str]]):
    kind = self._src(it)
    names = [x.id for x in ast.walk(target) if isinstance(x, ast.Name)]
    for nm in names:
      st.pop(nm, None)
    if kind == 'keys' and isinstance(target, ast.Name):
      st[target.id] = SI
      self.sources.append((it, f'`{target.id}` in `{unparse(it)[:60]}`'))
    elif kind == 'items' and isinstance(
        target, ast.Tuple) and target.elts and isinstance(
            target.elts[0], ast.Name):
      st[target.elts[0].id] = SI
      self.sources.append(
          (it, f'`{target.elts[0].id}` in `{unparse(it)[:60]}`'))

  # -- refinement
  def facts(self, test, branch: bool) -> Dict[str, FrozenSet[str]]:
    out: Dict[str, FrozenSet[str]] = {}
    if isinstance(test, ast.UnaryOp) and isinstance(test.op, ast.Not):
      return self.facts(test.operand, not branch)
    if isinstance(test, ast.BoolOp):
      if isinstance(test.op, ast.And) and branch:
        for v in test.values:
          for k, t in self.facts(v, True).items():
            out[k] = out.get(k, SI) & t
      elif isinstance(test.op, ast.Or) and not branch:
        for v in test.values:
          for k, t in self.facts(v, False).items():
            out[k] = out.get(k, SI) & t
      return out
    if isinstance(test, ast.Call) and isinstance(
        test.func, ast.Name) and test.func.id == 'isinstance' and len(
            test.args) == 2 and isinstance(test.args[0], ast.Name):
      tys = test.args[1].elts if isinstance(test.args[1], ast.Tuple) else [
          test.args[1]]
      names = {unparse(t) for t in tys}
      allowed = frozenset(x for x in (S, I) if x in names)
      if allowed:
        out[test.args[0].id] = allowed if branch else SI - allowed
      return out
    if isinstance(test, ast.Name) and test.id in self.param_of and branch:
      out[self.param_of[test.id]] = frozenset({S})
      return out
    if isinstance(test, ast.Compare) and len(test.ops) == 1 and isinstance(
        test.left, ast.Name):
      op, r = test.ops[0], test.comparators[0]
      if test.left.id in self.param_of and isinstance(
          r, ast.Constant) and r.value is None:
        if (isinstance(op, ast.Is) and not branch) or (
            isinstance(op, ast.IsNot) and branch):
          out[self.param_of[test.left.id]] = frozenset({S})
        return out
      # `k in X.parameters` / `k in valid_param_names` => str
      if isinstance(op, ast.In) and isinstance(r, ast.Attribute) and r.attr in (
          'parameters', 'valid_param_names') and branch:
        out[test.left.id] = frozenset({S})
      if isinstance(op, ast.NotIn) and isinstance(
          r, ast.Attribute) and r.attr in ('parameters',
                                           'valid_param_names') and not branch:
        out[test.left.id] = frozenset({S})
    return out

  # -- sinks
  def _sink_operand(self, e) -> List[Tuple[ast.expr, str]]:
    out = []
    if isinstance(e, ast.Call):
      fn = unparse(e.func)
      last = fn.split('.')[-1]
      if isinstance(e.func, ast.Name) and e.func.id in (
          'getattr', 'setattr', 'delattr', 'hasattr') and len(e.args) >= 2:
        out.append((e.args[1], f'{e.func.id}(..., key)'))
      elif last in ('Attr', 'BuildableAttr') and len(e.args) == 1:
        out.append((e.args[0], f'{last}(key)'))
      elif fn in ('cst.Name',) and e.args:
        out.append((e.args[0], 'cst.Name(key)'))
      elif last == 'kwarg_to_cst' and e.args:
        out.append((e.args[0], 'kwarg_to_cst(key, ...)'))
      elif last == 'validate_param_name' and e.args:
        out.append((e.args[0], 'validate_param_name(key, ...)'))
    return out

  def scan_expr(self, e, st: Dict[str, FrozenSet[str]]):
    if e is None:
      return
    if isinstance(e, ast.BoolOp):
      cur = dict(st)
      for v in e.values:
        self.scan_expr(v, cur)
        for k, t in self.facts(v, isinstance(e.op, ast.And)).items():
          if k in cur:
            cur[k] = cur[k] & t
      return
    if isinstance(e, ast.IfExp):
      self.scan_expr(e.test, st)
      for br, sub in ((True, e.body), (False, e.orelse)):
        cur = dict(st)
        for k, t in self.facts(e.test, br).items():
          if k in cur:
            cur[k] = cur[k] & t
        self.scan_expr(sub, cur)
      return
    if isinstance(e, (ast.Lambda, ast.FunctionDef, ast.AsyncFunctionDef,
                      ast.ClassDef)):
      return
    if isinstance(e, (ast.ListComp, ast.SetComp, ast.GeneratorExp,
                      ast.DictComp)):
      cur = dict(st)
      for gen in e.generators:
        self.scan_expr(gen.iter, cur)
        self.bind_target(gen.target, gen.iter, cur)
        for cond in gen.ifs:
          self.scan_expr(cond, cur)
          for k, t in self.facts(cond, True).items():
            if k in cur:
              cur[k] = cur[k] & t
      if isinstance(e, ast.DictComp):
        self.scan_expr(e.key, cur)
        self.scan_expr(e.value, cur)
      else:
        self.scan_expr(e.elt, cur)
      return
    if isinstance(e, ast.Call) and isinstance(e.func, ast.Name) and e.func.id in (
        'sorted', 'min', 'max') and e.args and not any(
            k.arg == 'key' for k in e.keywords) and self._src(
                e.args[0]) == 'keys':
      desc = f'{e.func.id}() over argument keys in `{norm_text(self.f, e)}`'
      if not any(d == desc for _, d in self.bad):
        self.bad.append((e, desc))
    for operand, what in self._sink_operand(e):
      if isinstance(operand, ast.Name) and operand.id in st:
        tags = st[operand.id]
        desc = f'{what} in `{norm_text(self.f, e)}`'
        if I in tags:
          if not any(d == desc for _, d in self.bad):
            self.bad.append((e, desc))
          self.ok = [(n, d) for n, d in self.ok if d != desc]
        elif not any(d == desc for _, d in self.bad + self.ok):
          self.ok.append((e, desc))
    for c in ast.iter_child_nodes(e):
      if isinstance(c, ast.expr):
        self.scan_expr(c, st)
      elif isinstance(c, ast.keyword):
        self.scan_expr(c.value, st)

  def run(self):
    g = self.g

    def transfer(n, state):
      st = dict(state)
      stmt = g.stmt[n]
      kind = g.kind[n]
      if stmt is None or kind in ('with_exit', 'dispatch', 'handler', 'if',
                                  'while', 'assert'):
        return state
      if kind == 'for':
        self.bind_target(stmt.target, stmt.iter, st)
        return frozenset(st.items())
      if isinstance(stmt, ast.Assign):
        for t in stmt.targets:
          if isinstance(t, ast.Name):
            if isinstance(stmt.value, ast.Name) and stmt.value.id in st:
              st[t.id] = st[stmt.value.id]
            else:
              st.pop(t.id, None)
      return frozenset(st.items())

    def refine(n, label, state):
      if g.kind[n] in ('if', 'while', 'assert') and label in ('true', 'false'):
        st = dict(state)
        for k, t in self.facts(g.stmt[n].test, label == 'true').items():
          if k in st:
            st[k] = st[k] & t
            if not st[k]:
              return None  # infeasible
        return frozenset(st.items())
      return state

    def join(a, b):
      da, db = dict(a), dict(b)
      out = {}
      for k in set(da) | set(db):
        if k in da and k in db:
          out[k] = da[k] | db[k]
        else:
          out[k] = da.get(k) or db.get(k)
      return frozenset(out.items())

    state_in = cfg_lib.forward(g, frozenset(), transfer, refine, join,
                               labels=cfg_lib.NO_EXC)
    self.sources = []
    for n, state in state_in.items():
      st = dict(state)
      kind = g.kind[n]
      stmt = g.stmt[n]
      if kind == 'for':
        self.scan_expr(stmt.iter, st)
        continue
      for e in cfg_lib.node_exprs(g, n):
        if isinstance(e, ast.stmt):
          if isinstance(e, (ast.FunctionDef, ast.AsyncFunctionDef,
                            ast.ClassDef)):
            continue
          for c in ast.iter_child_nodes(e):
            if isinstance(c, ast.expr):
              self.scan_expr(c, st)
        else:
          self.scan_expr(e, st)
    return self
