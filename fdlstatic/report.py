"""Obligations, findings, evidence files, known findings and exit codes."""
from __future__ import annotations

import dataclasses
import json
import os
import time
from typing import Any, Dict, List, Optional

VERIF = os.path.dirname(os.path.dirname(os.path.abspath(__file__)))
EVIDENCE_DIR = os.path.join(VERIF, 'evidence')
REPLAY_DIR = os.path.join(EVIDENCE_DIR, 'replay')
KNOWN_FINDINGS = os.path.join(VERIF, 'known_findings.json')


@dataclasses.dataclass
class Ob:
  """One obligation examined by a rule."""
  rule: str  # rule id, e.g. 'PAIR.guard-restore'
  construct: str  # stable key of the construct (no line numbers)
  ok: bool
  detail: str = ''
  loc: str = ''  # file:line, informational only
  nontrivial: bool = True  # needed a dataflow / CFG / call-graph argument
  witness: Optional[List[str]] = None  # path through CFG / call graph
  note: bool = False  # an observation: reported in evidence, never a violation

  def key(self):
    return (self.rule, self.construct)


class RuleSet:
  """Collects obligations of one property run."""

  def __init__(self, prop: str):
    self.prop = prop
    self.obs: List[Ob] = []
    self.rules_run: Dict[str, Dict[str, Any]] = {}
    self.exceptions_applied: List[Dict[str, str]] = []
    self.observations: List[str] = []

  def add(self, ob: Ob):
    self.obs.append(ob)

  def ok(self, rule, construct, detail='', loc='', nontrivial=True):
    self.obs.append(Ob(rule, construct, True, detail, loc, nontrivial))

  def fail(self, rule, construct, detail='', loc='', witness=None):
    self.obs.append(Ob(rule, construct, False, detail, loc, True, witness))

  def check(self, cond, rule, construct, detail='', loc='', nontrivial=True,
            witness=None):
    self.obs.append(
        Ob(rule, construct, bool(cond), detail, loc, nontrivial,
           witness if not cond else None))
    return bool(cond)

  def exception(self, rule, construct, reason):
    self.exceptions_applied.append(
        {'rule': rule, 'construct': construct, 'reason': reason})

  def observe(self, text):
    self.observations.append(text)

  def declare(self, rule: str, text: str, min_instances: int):
    self.rules_run[rule] = {'rule': rule, 'statement': text,
                            'min_instances': min_instances}

  def count(self, rule: str) -> int:
    return sum(1 for o in self.obs if o.rule == rule)


def load_known() -> List[Dict[str, Any]]:
  if not os.path.exists(KNOWN_FINDINGS):
    return []
  with open(KNOWN_FINDINGS) as f:
    return json.load(f)['findings']


def unlisted(rs: RuleSet) -> List[Ob]:
  """Failing obligations that are not listed known findings (deduplicated)."""
  known_active = {(k['rule'], k['construct']) for k in load_known()
                  if k['property'] == rs.prop and
                  k.get('status', 'known') == 'known'}
  seen, out = set(), []
  for o in rs.obs:
    if o.ok or o.key() in seen:
      continue
    seen.add(o.key())
    if o.key() not in known_active:
      out.append(o)
  return out


def vacuous(rs: RuleSet) -> List[str]:
  return [r for r, info in rs.rules_run.items()
          if rs.count(r) < info['min_instances']]


def finish(rs: RuleSet, tier: str, seed: int, t0: float, analysed: Dict,
           explanation: str, assumptions: List[str],
           only: Optional[tuple] = None) -> int:
  """Writes evidence + replay files, prints the verdict lines, returns rc."""
  from fdlstatic.model import AnalysisError
  prop = rs.prop
  known = [k for k in load_known() if k['property'] == prop]
  known_active = {(k['rule'], k['construct']): k for k in known
                  if k.get('status', 'known') == 'known'}
  failing = [o for o in rs.obs if not o.ok]
  # several obligations can share a key (e.g. per-path); dedupe for reporting
  seen = set()
  violations, known_hits = [], []
  for o in failing:
    if o.key() in seen:
      continue
    seen.add(o.key())
    if o.key() in known_active:
      known_hits.append(o)
    else:
      violations.append(o)
  no_ev = bool(os.environ.get('FDLSTATIC_NO_EVIDENCE')) or only is not None
  if not no_ev:
    os.makedirs(REPLAY_DIR, exist_ok=True)
    for fn in os.listdir(REPLAY_DIR):
      if fn.startswith(prop + '-'):
        os.remove(os.path.join(REPLAY_DIR, fn))
  for o in known_hits:
    k = known_active[o.key()]
    print(f'KNOWN-FINDING: property={prop} rule={o.rule} '
          f'construct={o.construct} :: {k.get("failing_input", "")}')
  rc = 0
  for i, o in enumerate(violations):
    path = os.path.join(REPLAY_DIR, f'{prop}-{i}.json')
    if not no_ev:
      with open(path, 'w') as f:
        json.dump({'property': prop, 'rule': o.rule, 'construct': o.construct,
                   'detail': o.detail, 'loc': o.loc, 'witness': o.witness}, f,
                  indent=1)
    print(f'[{o.rule}] {o.loc} {o.construct}: {o.detail}')
    if o.witness:
      for w in o.witness:
        print(f'    {w}')
    print(f'VIOLATION property={prop} replay={path}')
    rc = 1
  # vacuity guard (a violation found elsewhere still takes precedence)
  for rule, info in rs.rules_run.items():
    n = rs.count(rule)
    info['instances'] = n
    if n < info['min_instances'] and rc == 0:
      raise AnalysisError(
          f'rule {rule} matched {n} instance(s), fewer than the '
          f'{info["min_instances"]} confirmed by hand: an anchor vanished or '
          'was renamed; the rule cannot decide')
  total = len(rs.obs)
  discharged = sum(1 for o in rs.obs if o.ok)
  distinct_nontrivial = len({o.key() for o in rs.obs if o.nontrivial})
  by_rule: Dict[str, List[Ob]] = {}
  for o in rs.obs:
    by_rule.setdefault(o.rule, []).append(o)
  samples = []
  for rule, obs in by_rule.items():
    for o in obs[:3]:
      samples.append({'rule': rule, 'construct': o.construct, 'ok': o.ok,
                      'detail': o.detail[:300], 'loc': o.loc})
  ev = {
      'property_id': prop,
      'tier': tier,
      'seed': seed,
      'level': 'other',
      'coverage': {
          'explanation': explanation,
          'evaluations': total,
          'distinct_nontrivial': distinct_nontrivial,
          'rule': ('one evaluation = one obligation (rule instance) examined '
                   'on the current /repo tree; distinct = distinct (rule, '
                   'construct) keys; non-trivial = needed a CFG / dataflow / '
                   'call-graph / table-agreement argument rather than being '
                   'discharged by mere absence'),
          'obligations': total,
          'discharged': discharged,
          'samples': samples,
          'rules': list(rs.rules_run.values()),
          'analysed': analysed,
          'exceptions_applied': rs.exceptions_applied,
          'observations': rs.observations,
          'known_findings_hit': [
              {'rule': o.rule, 'construct': o.construct} for o in known_hits],
          'violations': [
              {'rule': o.rule, 'construct': o.construct, 'detail': o.detail,
               'loc': o.loc} for o in violations],
          'all_obligations': [
              {'rule': o.rule, 'construct': o.construct, 'ok': o.ok,
               'loc': o.loc} for o in rs.obs],
          'exhaustive': False,
      },
      'assumptions': assumptions,
      'wall_s': round(time.time() - t0, 3),
      'violations': len(violations),
  }
  os.makedirs(EVIDENCE_DIR, exist_ok=True)
  if not no_ev:
    with open(os.path.join(EVIDENCE_DIR, f'{prop}.json'), 'w') as f:
      json.dump(ev, f, indent=1, sort_keys=False)
  print(f'{prop}: {total} obligations, {discharged} discharged, '
        f'{len(known_hits)} known finding(s), {len(violations)} violation(s) '
        f'[{tier}, {ev["wall_s"]}s]')
  return rc
