"""Finding local variables by the role they play, not by what they are called.

Rules must survive a renaming of locals, so they ask "the variable assigned
from `X.find_node_traverser(...)`" instead of "the variable named traverser".
"""
from __future__ import annotations

import ast
from typing import Callable, List, Optional, Set

from fdlstatic.model import unparse, walk_function


def assigned_from(f, pred: Callable[[ast.expr], bool], position: int = None
                  ) -> Set[str]:
  """Local names assigned a value satisfying `pred`.

  With `position`, the name is element `position` of a tuple target
  (`a, b = value`).
  """
  out = set()
  for st in walk_function(f.node):
    if isinstance(st, ast.Assign) and pred(st.value):
      for t in st.targets:
        if position is None and isinstance(t, ast.Name):
          out.add(t.id)
        elif position is not None and isinstance(t, (ast.Tuple, ast.List)) and (
            len(t.elts) > position) and isinstance(t.elts[position], ast.Name):
          out.add(t.elts[position].id)
    elif isinstance(st, ast.AnnAssign) and st.value is not None and pred(
        st.value) and isinstance(st.target, ast.Name) and position is None:
      out.add(st.target.id)
    elif isinstance(st, ast.NamedExpr) and pred(st.value) and position is None:
      out.add(st.target.id)
  return out


def call_of(suffix: str, nargs: int = None) -> Callable[[ast.expr], bool]:
  """Predicate: a call whose callee text ends with `suffix`."""
  def pred(e):
    return (isinstance(e, ast.Call) and unparse(e.func).split('.')[-1] ==
            suffix.split('.')[-1] and unparse(e.func).endswith(suffix) and
            (nargs is None or len(e.args) == nargs))
  return pred


def defs_of(f, name: str) -> List[ast.expr]:
  """Right-hand sides of the plain assignments to local `name`."""
  out = []
  for st in walk_function(f.node):
    if isinstance(st, ast.Assign) and any(
        isinstance(t, ast.Name) and t.id == name for t in st.targets):
      out.append(st.value)
    elif isinstance(st, ast.Assign) and len(st.targets) == 1 and isinstance(
        st.targets[0], (ast.Tuple, ast.List)) and isinstance(
            st.value, (ast.Tuple, ast.List)) and len(
                st.targets[0].elts) == len(st.value.elts) and not any(
                    isinstance(x, ast.Starred)
                    for x in st.targets[0].elts + st.value.elts):
      # a, b = x, y
      for t, v in zip(st.targets[0].elts, st.value.elts):
        if isinstance(t, ast.Name) and t.id == name:
          out.append(v)
    elif isinstance(st, ast.AnnAssign) and isinstance(
        st.target, ast.Name) and st.target.id == name and st.value is not None:
      out.append(st.value)
  return out


def deref(f, expr, depth: int = 3):
  """`expr`, or what it names: a local with exactly one plain assignment is
  replaced by the assigned expression (a named intermediate result)."""
  while depth > 0 and isinstance(expr, ast.Name):
    ds = defs_of(f, expr.id)
    stores = [n for n in walk_function(f.node) if isinstance(
        n, ast.Name) and n.id == expr.id and isinstance(
            n.ctx, (ast.Store, ast.Del))]
    if len(ds) != 1 or len(stores) != 1:
      break
    expr = ds[0]
    depth -= 1
  return expr


def expand(f, expr, depth: int = 3):
  """Nodes of `expr`, following local names to what they were assigned."""
  for n in ast.walk(expr):
    yield n
    if isinstance(n, ast.Name) and isinstance(n.ctx, ast.Load) and depth > 0:
      for d in defs_of(f, n.id):
        yield from expand(f, d, depth - 1)


def is_none_test(test, names: Set[str]) -> Optional[bool]:
  """True if `test` is `<name> is None`, False for `is not None` / truthiness

  of one of `names`; None if it is neither.
  """
  neg = False
  t = test
  while isinstance(t, ast.UnaryOp) and isinstance(t.op, ast.Not):
    t, neg = t.operand, not neg
  if isinstance(t, ast.Compare) and len(t.ops) == 1 and isinstance(
      t.left, ast.Name) and t.left.id in names and isinstance(
          t.comparators[0], ast.Constant) and t.comparators[0].value is None:
    if isinstance(t.ops[0], ast.Is):
      return not neg
    if isinstance(t.ops[0], ast.IsNot):
      return neg
  if isinstance(t, ast.Name) and t.id in names:
    return neg  # `if x:` -> not None on the true branch
  return None


def branch_when(test, atom_pred, atom_value: bool = True) -> Optional[str]:
  """Which branch of `if test` is taken when every sub-expression satisfying

  `atom_pred` is `atom_value` (everything else unknown): 'true', 'false' or
  None if the atoms do not decide the test.  Makes rules indifferent to
  `if a: X else: Y` versus `if not a: Y else: X`.
  """
  def ev(t):
    if atom_pred(t):
      return atom_value
    if isinstance(t, ast.UnaryOp) and isinstance(t.op, ast.Not):
      v = ev(t.operand)
      return None if v is None else not v
    if isinstance(t, ast.Compare) and len(t.ops) == 1 and isinstance(
        t.ops[0], (ast.NotIn, ast.IsNot, ast.NotEq)):
      # `a not in b` is `not (a in b)` for an atom predicate written
      # positively
      pos = {ast.NotIn: ast.In, ast.IsNot: ast.Is, ast.NotEq: ast.Eq}[
          type(t.ops[0])]
      twin = ast.Compare(left=t.left, ops=[pos()], comparators=t.comparators)
      if atom_pred(twin):
        return not atom_value
    if isinstance(t, ast.BoolOp):
      vals = [ev(v) for v in t.values]
      if isinstance(t.op, ast.And):
        if any(v is False for v in vals):
          return False
        return True if all(v is True for v in vals) else None
      if any(v is True for v in vals):
        return True
      return False if all(v is False for v in vals) else None
    return None
  v = ev(test)
  return None if v is None else ('true' if v else 'false')


def _store_targets(st):
  """(target node, kind, value) for every local name a statement binds:
  kind 'value' (x = v), 'elt' (x is an element of an unpacked v), 'rest'
  (starred element of an unpacked v: the remaining elements), 'iter'."""
  out = []

  def tgt(t, v, kind='value'):
    if isinstance(t, ast.Name):
      out.append((t, kind, v))
    elif isinstance(t, ast.Starred):
      tgt(t.value, v, 'rest')
    elif isinstance(t, (ast.Tuple, ast.List)):
      if kind == 'value' and isinstance(v, (ast.Tuple, ast.List)) and len(
          v.elts) == len(t.elts) and not any(
              isinstance(x, ast.Starred) for x in list(t.elts) + list(v.elts)):
        for a, b in zip(t.elts, v.elts):
          tgt(a, b)
      else:
        for a in t.elts:
          tgt(a, v, 'rest' if isinstance(a, ast.Starred) else 'elt')

  if isinstance(st, ast.Assign):
    for t in st.targets:
      tgt(t, st.value)
  elif isinstance(st, ast.AnnAssign) and st.value is not None:
    tgt(st.target, st.value)
  elif isinstance(st, ast.AugAssign):
    tgt(st.target, st, 'aug')
  elif isinstance(st, (ast.For, ast.AsyncFor)):
    tgt(st.target, st.iter, 'iter')
  elif isinstance(st, (ast.With, ast.AsyncWith)):
    for it in st.items:
      if it.optional_vars is not None:
        tgt(it.optional_vars, it.context_expr, 'with')
  return out


def reaching(g, n: int, name: str):
  """Definitions of local `name` that reach CFG node n: a list of
  (def node id, kind, value expression).  The function's parameters are not
  definitions here: an empty list means the parameter (or a free name)."""
  defs = {}
  for m in g.nodes():
    st = g.stmt[m]
    if st is None or g.kind[m] not in ('stmt', 'for', 'with'):
      continue
    for t, kind, v in _store_targets(st):
      if t.id == name:
        defs.setdefault(m, []).append((kind, v))
  if not defs:
    return []
  out = []
  # backwards search from n, stopping at definitions
  pred = {k: [a for a, _ in v] for k, v in g.pred.items()}
  seen, stack = set(), list(pred.get(n, []))
  entry_reached = False
  while stack:
    m = stack.pop()
    if m in seen:
      continue
    seen.add(m)
    if m in defs:
      for kind, v in defs[m]:
        out.append((m, kind, v))
      continue
    if m == g.entry:
      entry_reached = True
    stack.extend(pred.get(m, []))
  if entry_reached and g.entry not in defs:
    out.append((g.entry, 'param', None))
  return out


def value_at(g, n: int, expr, depth: int = 4):
  """`expr` as evaluated at CFG node n, with locals that have one reaching
  plain definition (`x = v`) replaced by v.  Returns (expression, node at
  which it is evaluated)."""
  while depth > 0 and isinstance(expr, ast.Name):
    rd = reaching(g, n, expr.id)
    if len(rd) != 1 or rd[0][1] != 'value':
      break
    n, _, expr = rd[0]
    depth -= 1
  return expr, n


def normal_form(f):
  """A copy of f's definition with single-assignment temporaries substituted
  and accumulator loops written as comprehensions (fdlstatic/normalise.py):
  for rules that look for a comprehension / a nested expression shape."""
  nf = getattr(f, '_normal_form', None)
  if nf is None and not f.is_lambda:
    import copy  # pylint: disable=g-import-not-at-top
    from fdlstatic import normalise  # pylint: disable=g-import-not-at-top
    nf = copy.deepcopy(f.node)
    normalise.eliminate_temps(nf)
    if normalise.loops_to_comprehensions(nf):
      normalise.eliminate_temps(nf)
    f._normal_form = nf
  return nf if nf is not None else f.node


def both_forms(f):
  """Nodes of f as written, then of its normal form."""
  yield from walk_function(f.node)
  nf = normal_form(f)
  if nf is not f.node:
    yield from walk_function(nf)


def deref_deep(f, expr, depth: int = 3):
  """A copy of `expr` in which every local with exactly one plain assignment
  is replaced by the assigned expression, recursively (named intermediate
  results read as the expression they name)."""
  import copy  # pylint: disable=g-import-not-at-top

  class T(ast.NodeTransformer):

    def __init__(self, d):
      self.d = d

    def visit_Name(self, node):
      if isinstance(node.ctx, ast.Load) and self.d > 0:
        v = deref(f, node, 1)
        if v is not node:
          return T(self.d - 1).visit(copy.deepcopy(v))
      return node

  return T(depth).visit(copy.deepcopy(expr))


_STABLE_PARAM_ATTRS = {'kind', 'default', 'empty', 'name', 'annotation'}
_STORE_ATTRS = {'__arguments__', '__argument_tags__'}


def _stable_test(e) -> bool:
  """A truth value computed from immutable facts only: comparisons of names,
  constants and attributes of inspect.Parameter objects (kind, default,
  empty, name, the kind constants)."""
  for n in ast.walk(e):
    if isinstance(n, (ast.Compare, ast.BoolOp, ast.UnaryOp, ast.Name,
                      ast.Constant, ast.Tuple, ast.Load, ast.cmpop,
                      ast.boolop, ast.unaryop)):
      continue
    if isinstance(n, ast.Attribute) and isinstance(n.value, ast.Name) and (
        n.attr in _STABLE_PARAM_ATTRS or n.attr.isupper()):
      continue
    return False
  return isinstance(e, (ast.Compare, ast.BoolOp, ast.UnaryOp))


def _store_alias(e) -> bool:
  """`<name>.__arguments__`: another name for the same dict object."""
  return isinstance(e, ast.Attribute) and e.attr in _STORE_ATTRS and isinstance(
      e.value, ast.Name)


def stable_view(f):
  """A view of `f` in which locals that merely name (a) a truth value computed
  from immutable parameter facts (`positional_only = p.kind ==
  p.POSITIONAL_ONLY`) or (b) the argument store of an object (`arguments =
  node.__arguments__`) are written out where they are used.  Both read the
  same at the assignment and at every later use: Parameter objects are
  immutable, and the store is one dict that is edited in place.  Rules that
  classify branches by such tests look at this view."""
  import copy  # pylint: disable=g-import-not-at-top
  if f.is_lambda:
    return f
  v = getattr(f, '_stable_view', None)
  if v is not None:
    return v
  node = copy.deepcopy(f.node)
  changed = False
  for _ in range(3):
    stores = {}
    for n in walk_function(node):
      if isinstance(n, ast.Name) and isinstance(n.ctx, (ast.Store, ast.Del)):
        stores[n.id] = stores.get(n.id, 0) + 1
    subst = {}
    drop = []
    for st in walk_function(node):
      if isinstance(st, ast.Assign) and len(st.targets) == 1 and isinstance(
          st.targets[0], ast.Name):
        x = st.targets[0].id
        if stores.get(x) == 1 and x not in f.params and (
            _stable_test(st.value) or _store_alias(st.value)) and not any(
                isinstance(y, ast.Name) and stores.get(y.id, 0) > 1
                for y in ast.walk(st.value)):
          subst[x] = st.value
          drop.append(st)
    if not subst:
      break
    changed = True

    class T(ast.NodeTransformer):

      def visit_Name(self, n):
        if isinstance(n.ctx, ast.Load) and n.id in subst:
          return ast.copy_location(copy.deepcopy(subst[n.id]), n)
        return n

      def generic_visit(self, n):
        for fld, old in ast.iter_fields(n):
          if isinstance(old, list):
            new = [x for x in old if not any(x is d for d in drop)]
            if len(new) != len(old):
              if not new and fld in ('body',):
                new = [ast.copy_location(ast.Pass(), old[0])]
              setattr(n, fld, new)
        return super().generic_visit(n)

    T().visit(node)
    ast.fix_missing_locations(node)
  if not changed:
    f._stable_view = f
    return f
  v = copy.copy(f)
  v.node = node
  v._locals = None
  v._stable_view = v
  v._normal_form = None
  f._stable_view = v
  return v
