"""Finding local variables by the role they play, not by what they are called.

Rules must survive a renaming of locals, so they ask "the variable assigned
from `X.find_node_traverser(...)`" instead of "the variable named traverser".
"""
from __future__ import annotations

import ast
from typing import Callable, List, Optional, Set

from fdlstatic.model import unparse, walk_function


def assigned_from(f, pred: Callable[[ast.expr], bool], position: int = None
                  ) -> Set[str]:
  """Local names assigned a value satisfying `pred`.

  With `position`, the name is element `position` of a tuple target
  (`a, b = value`).
  """
  out = set()
  for st in walk_function(f.node):
    if isinstance(st, ast.Assign) and pred(st.value):
      for t in st.targets:
        if position is None and isinstance(t, ast.Name):
          out.add(t.id)
        elif position is not None and isinstance(t, (ast.Tuple, ast.List)) and (
            len(t.elts) > position) and isinstance(t.elts[position], ast.Name):
          out.add(t.elts[position].id)
    elif isinstance(st, ast.AnnAssign) and st.value is not None and pred(
        st.value) and isinstance(st.target, ast.Name) and position is None:
      out.add(st.target.id)
    elif isinstance(st, ast.NamedExpr) and pred(st.value) and position is None:
      out.add(st.target.id)
  return out


def call_of(suffix: str, nargs: int = None) -> Callable[[ast.expr], bool]:
  """Predicate: a call whose callee text ends with `suffix`."""
  def pred(e):
    return (isinstance(e, ast.Call) and unparse(e.func).split('.')[-1] ==
            suffix.split('.')[-1] and unparse(e.func).endswith(suffix) and
            (nargs is None or len(e.args) == nargs))
  return pred


def defs_of(f, name: str) -> List[ast.expr]:
  """Right-hand sides of the plain assignments to local `name`."""
  out = []
  for st in walk_function(f.node):
    if isinstance(st, ast.Assign) and any(
        isinstance(t, ast.Name) and t.id == name for t in st.targets):
      out.append(st.value)
    elif isinstance(st, ast.AnnAssign) and isinstance(
        st.target, ast.Name) and st.target.id == name and st.value is not None:
      out.append(st.value)
  return out


def expand(f, expr, depth: int = 3):
  """Nodes of `expr`, following local names to what they were assigned."""
  for n in ast.walk(expr):
    yield n
    if isinstance(n, ast.Name) and isinstance(n.ctx, ast.Load) and depth > 0:
      for d in defs_of(f, n.id):
        yield from expand(f, d, depth - 1)


def is_none_test(test, names: Set[str]) -> Optional[bool]:
  """True if `test` is `<name> is None`, False for `is not None` / truthiness

  of one of `names`; None if it is neither.
  """
  neg = False
  t = test
  while isinstance(t, ast.UnaryOp) and isinstance(t.op, ast.Not):
    t, neg = t.operand, not neg
  if isinstance(t, ast.Compare) and len(t.ops) == 1 and isinstance(
      t.left, ast.Name) and t.left.id in names and isinstance(
          t.comparators[0], ast.Constant) and t.comparators[0].value is None:
    if isinstance(t.ops[0], ast.Is):
      return not neg
    if isinstance(t.ops[0], ast.IsNot):
      return neg
  if isinstance(t, ast.Name) and t.id in names:
    return neg  # `if x:` -> not None on the true branch
  return None


def branch_when(test, atom_pred, atom_value: bool = True) -> Optional[str]:
  """Which branch of `if test` is taken when every sub-expression satisfying

  `atom_pred` is `atom_value` (everything else unknown): 'true', 'false' or
  None if the atoms do not decide the test.  Makes rules indifferent to
  `if a: X else: Y` versus `if not a: Y else: X`.
  """
  def ev(t):
    if atom_pred(t):
      return atom_value
    if isinstance(t, ast.UnaryOp) and isinstance(t.op, ast.Not):
      v = ev(t.operand)
      return None if v is None else not v
    if isinstance(t, ast.Compare) and len(t.ops) == 1 and isinstance(
        t.ops[0], (ast.NotIn, ast.IsNot, ast.NotEq)):
      # `a not in b` is `not (a in b)` for an atom predicate written
      # positively
      pos = {ast.NotIn: ast.In, ast.IsNot: ast.Is, ast.NotEq: ast.Eq}[
          type(t.ops[0])]
      twin = ast.Compare(left=t.left, ops=[pos()], comparators=t.comparators)
      if atom_pred(twin):
        return not atom_value
    if isinstance(t, ast.BoolOp):
      vals = [ev(v) for v in t.values]
      if isinstance(t.op, ast.And):
        if any(v is False for v in vals):
          return False
        return True if all(v is True for v in vals) else None
      if any(v is True for v in vals):
        return True
      return False if all(v is False for v in vals) else None
    return None
  v = ev(test)
  return None if v is None else ('true' if v else 'false')
