"""NULL rule: values flowing from an Optional[...] source must be tested for
None before they are ordered, used in arithmetic or passed to range().

Flow-sensitive over the CFG; expression-level short-circuit refinement for
`and` / `or` / `not` / conditional expressions; truthiness counts as a non-None
fact on the true branch only.
"""
from __future__ import annotations

import ast
from typing import Callable, Dict, FrozenSet, List, Optional, Set, Tuple

from fdlstatic import cfg as cfg_lib
from fdlstatic.model import FuncInfo, unparse

MAYBE, NONNULL = 'maybe', 'nonnull'


def _key(e) -> Optional[str]:
  if isinstance(e, (ast.Name, ast.Attribute)):
    try:
      return ast.unparse(e)
    except Exception:
      return None
  return None


class NullAnalysis:

  def __init__(self, f: FuncInfo, g: cfg_lib.CFG,
               is_source: Callable[[ast.expr], bool]):
    self.f = f
    self.g = g
    self.is_source = is_source
    # findings: (node, expr, kind, text)
    self.sinks_ok: List[Tuple[ast.AST, str]] = []
    self.sinks_bad: List[Tuple[ast.AST, str]] = []
    self._seen = set()

  # state: frozenset of (key, status)
  def _maybe(self, e, st: Dict[str, str]) -> Optional[str]:
    """Returns the tracked key if `e` may be None in state st, else None."""
    k = _key(e)
    if k is None:
      if isinstance(e, ast.IfExp):
        return None
      return None
    if self.is_source(e):
      return k if st.get(k) != NONNULL else None
    if isinstance(e, ast.Name) and st.get(k) == MAYBE:
      return k
    return None

  def _tracked(self, e, st) -> bool:
    k = _key(e)
    return k is not None and (self.is_source(e) or k in st)

  def facts(self, test, branch: bool) -> Dict[str, str]:
    """Keys known NONNULL when `test` evaluates to `branch`."""
    out: Dict[str, str] = {}
    if isinstance(test, ast.UnaryOp) and isinstance(test.op, ast.Not):
      return self.facts(test.operand, not branch)
    if isinstance(test, ast.BoolOp):
      if isinstance(test.op, ast.And) and branch:
        for v in test.values:
          out.update(self.facts(v, True))
      elif isinstance(test.op, ast.Or) and not branch:
        for v in test.values:
          out.update(self.facts(v, False))
      return out
    if isinstance(test, ast.Compare) and len(test.ops) == 1:
      l, r = test.left, test.comparators[0]
      op = test.ops[0]
      none_r = isinstance(r, ast.Constant) and r.value is None
      none_l = isinstance(l, ast.Constant) and l.value is None
      other = l if none_r else (r if none_l else None)
      if other is not None and _key(other):
        if isinstance(op, (ast.Is, ast.Eq)) and not branch:
          out[_key(other)] = NONNULL
        elif isinstance(op, (ast.IsNot, ast.NotEq)) and branch:
          out[_key(other)] = NONNULL
      return out
    if isinstance(test, ast.Call) and isinstance(
        test.func, ast.Name) and test.func.id == 'isinstance' and branch:
      if _key(test.args[0]):
        out[_key(test.args[0])] = NONNULL
      return out
    if _key(test) and branch:
      out[_key(test)] = NONNULL  # truthy implies not None
    return out

  def scan_expr(self, e, st: Dict[str, str], node_id):
    """Walks expression e with short-circuit refinement, recording sinks."""
    if e is None:
      return
    if isinstance(e, ast.BoolOp):
      cur = dict(st)
      for v in e.values:
        self.scan_expr(v, cur, node_id)
        cur.update(self.facts(v, isinstance(e.op, ast.And)))
      return
    if isinstance(e, ast.IfExp):
      self.scan_expr(e.test, st, node_id)
      a = dict(st)
      a.update(self.facts(e.test, True))
      self.scan_expr(e.body, a, node_id)
      b = dict(st)
      b.update(self.facts(e.test, False))
      self.scan_expr(e.orelse, b, node_id)
      return
    if isinstance(e, (ast.Lambda, ast.FunctionDef, ast.AsyncFunctionDef,
                      ast.ClassDef)):
      return
    if isinstance(e, (ast.ListComp, ast.SetComp, ast.GeneratorExp,
                      ast.DictComp)):
      cur = dict(st)
      for gen in e.generators:
        self.scan_expr(gen.iter, cur, node_id)
        for cond in gen.ifs:
          self.scan_expr(cond, cur, node_id)
          cur.update(self.facts(cond, True))
      if isinstance(e, ast.DictComp):
        self.scan_expr(e.key, cur, node_id)
        self.scan_expr(e.value, cur, node_id)
      else:
        self.scan_expr(e.elt, cur, node_id)
      return
    if isinstance(e, ast.Compare):
      operands = [e.left] + list(e.comparators)
      for i, op in enumerate(e.ops):
        if isinstance(op, (ast.Lt, ast.LtE, ast.Gt, ast.GtE)):
          for side in (operands[i], operands[i + 1]):
            self._sink(side, st, node_id, 'ordering comparison', e)
    elif isinstance(e, ast.BinOp) and isinstance(
        e.op, (ast.Add, ast.Sub, ast.Mult, ast.FloorDiv, ast.Mod, ast.Div,
               ast.Pow)):
      for side in (e.left, e.right):
        self._sink(side, st, node_id, 'arithmetic', e)
    elif isinstance(e, ast.UnaryOp) and isinstance(e.op, (ast.USub, ast.UAdd)):
      self._sink(e.operand, st, node_id, 'arithmetic', e)
    elif isinstance(e, ast.Call) and isinstance(
        e.func, ast.Name) and e.func.id == 'range':
      for a in e.args:
        self._sink(a, st, node_id, 'range() bound', e)
    elif isinstance(e, ast.Subscript) and not isinstance(e.slice, ast.Slice):
      # list[None] raises TypeError; dict.get style lookups use calls
      pass
    elif isinstance(e, ast.Subscript):
      # x[:None] does not raise: it silently means "no bound", so an absent
      # position selects everything instead of nothing
      for b in (e.slice.lower, e.slice.upper, e.slice.step):
        if b is not None:
          self._sink(b, st, node_id, 'slice bound', e)
    for c in ast.iter_child_nodes(e):
      if isinstance(c, ast.expr):
        self.scan_expr(c, st, node_id)
      elif isinstance(c, (ast.keyword,)):
        self.scan_expr(c.value, st, node_id)
      elif isinstance(c, ast.Slice):
        for b in (c.lower, c.upper, c.step):
          self.scan_expr(b, st, node_id)

  def _sink(self, operand, st, node_id, kind, ctx_expr):
    if not self._tracked(operand, st):
      return
    k = self._maybe(operand, st)
    ident = (id(operand), kind)
    desc = f'{kind} `{unparse(ctx_expr)}` on `{unparse(operand)}`'
    if k is None:
      if ident not in self._seen:
        self._seen.add(ident)
        self.sinks_ok.append((ctx_expr, desc))
    else:
      # a later visit with a better state does not erase a bad path
      self._seen.add(ident)
      if not any(d == desc for _, d in self.sinks_bad):
        self.sinks_bad.append((ctx_expr, desc))
      self.sinks_ok = [(n, d) for n, d in self.sinks_ok if d != desc]

  # ------------------------------------------------------------ dataflow
  def run(self):
    g = self.g

    def transfer(n, state: FrozenSet) -> FrozenSet:
      st = dict(state)
      stmt = g.stmt[n]
      kind = g.kind[n]
      if stmt is None or kind in ('with_exit', 'dispatch', 'handler'):
        return state
      if kind in ('if', 'while', 'assert'):
        return state
      if kind == 'for':
        for t in ast.walk(stmt.target):
          if isinstance(t, ast.Name):
            st.pop(t.id, None)
        return frozenset(st.items())
      if isinstance(stmt, ast.Assign):
        src_maybe = None
        if self._tracked(stmt.value, st):
          src_maybe = MAYBE if self._maybe(stmt.value, st) else NONNULL
        for t in stmt.targets:
          if isinstance(t, ast.Name):
            if src_maybe is not None:
              st[t.id] = src_maybe
            else:
              st.pop(t.id, None)
          else:
            for x in ast.walk(t):
              if isinstance(x, ast.Name) and isinstance(x.ctx, ast.Store):
                st.pop(x.id, None)
      elif isinstance(stmt, ast.AugAssign) and isinstance(
          stmt.target, ast.Name):
        st.pop(stmt.target.id, None)
      elif isinstance(stmt, ast.AnnAssign) and isinstance(
          stmt.target, ast.Name) and stmt.value is not None:
        if self._tracked(stmt.value, st):
          st[stmt.target.id] = MAYBE if self._maybe(stmt.value,
                                                     st) else NONNULL
        else:
          st.pop(stmt.target.id, None)
      return frozenset(st.items())

    def refine(n, label, state):
      if g.kind[n] in ('if', 'while', 'assert') and label in ('true',
                                                               'false'):
        st = dict(state)
        st.update(self.facts(g.stmt[n].test, label == 'true'))
        return frozenset(st.items())
      return state

    def join(a, b):
      da, db = dict(a), dict(b)
      out = {}
      for k in set(da) | set(db):
        va, vb = da.get(k), db.get(k)
        if va == vb:
          out[k] = va
        elif va is None or vb is None:
          # tracked on one side only: a NONNULL fact is lost, MAYBE is kept
          v = va or vb
          if v == MAYBE:
            out[k] = MAYBE
        else:
          out[k] = MAYBE
      return frozenset(out.items())

    state_in = cfg_lib.forward(g, frozenset(), transfer, refine, join,
                               labels=cfg_lib.NO_EXC)
    for n, state in state_in.items():
      st = dict(state)
      for e in cfg_lib.node_exprs(g, n):
        if isinstance(e, ast.stmt):
          if isinstance(e, (ast.FunctionDef, ast.AsyncFunctionDef,
                            ast.ClassDef)):
            continue
          for c in ast.iter_child_nodes(e):
            if isinstance(c, ast.expr):
              self.scan_expr(c, st, n)
        else:
          self.scan_expr(e, st, n)
    return self
