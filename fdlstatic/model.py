"""Source model of /repo: modules, imports, classes, functions, name resolution.

Nothing from `fiddle` is imported or executed; everything is derived from `ast`.
Qualified names are dotted: `fiddle._src.config.Buildable.__getitem__`; nested
functions are `outer.inner`; lambdas are `outer.<lambda#k>` (k = position in
source order inside the enclosing def or module), never line numbers.
"""
from __future__ import annotations

import ast
import builtins
import os
from typing import Dict, Iterator, List, Optional, Tuple, Union

REPO = os.environ.get('FDLSTATIC_REPO', '/repo')
PKG = 'fiddle'


class AnalysisError(Exception):
  """The analysis could not be carried out (exit code 2)."""


def is_analysed_file(relpath: str) -> bool:
  base = os.path.basename(relpath)
  parts = relpath.split(os.sep)
  if not base.endswith('.py'):
    return False
  if base.endswith('_test.py') or base.startswith('test_'):
    return False
  if 'testing' in parts or 'testdata' in parts or 'test_submodule' in parts:
    return False
  if 'examples' in parts or 'example' in parts:
    return False
  return True


class Scope:
  """Common base for Module / ClassInfo / FuncInfo."""
  qualname: str
  module: 'Module'
  parent: Optional['Scope']


class FuncInfo(Scope):

  def __init__(self, module, qualname, node, parent):
    self.module = module
    self.qualname = qualname
    self.node = node
    self.parent = parent
    self.nested: Dict[str, 'FuncInfo'] = {}
    self.lambdas: List['FuncInfo'] = []
    self.classes: Dict[str, 'ClassInfo'] = {}
    self._locals = None

  @property
  def name(self):
    return self.qualname.rsplit('.', 1)[-1]

  @property
  def cls(self) -> Optional['ClassInfo']:
    return self.parent if isinstance(self.parent, ClassInfo) else None

  @property
  def is_lambda(self):
    return isinstance(self.node, ast.Lambda)

  @property
  def body(self) -> List[ast.stmt]:
    if self.is_lambda:
      return [ast.copy_location(ast.Return(value=self.node.body), self.node)]
    return self.node.body

  @property
  def params(self) -> List[str]:
    a = self.node.args
    out = [x.arg for x in a.posonlyargs + a.args]
    if a.vararg:
      out.append(a.vararg.arg)
    out += [x.arg for x in a.kwonlyargs]
    if a.kwarg:
      out.append(a.kwarg.arg)
    return out

  def param_annotation(self, name) -> Optional[ast.expr]:
    a = self.node.args
    for x in a.posonlyargs + a.args + a.kwonlyargs + [a.vararg, a.kwarg]:
      if x is not None and x.arg == name:
        return x.annotation
    return None

  @property
  def decorators(self) -> List[ast.expr]:
    return [] if self.is_lambda else self.node.decorator_list

  def local_names(self) -> set:
    """Names bound in this function (params, assignments, nested defs...)."""
    if self._locals is None:
      names = set(self.params)
      declared_nonlocal = set()
      for n in walk_function(self.node):
        if isinstance(n, ast.Name) and isinstance(n.ctx, (ast.Store, ast.Del)):
          names.add(n.id)
        elif isinstance(n, (ast.FunctionDef, ast.AsyncFunctionDef,
                            ast.ClassDef)):
          names.add(n.name)
        elif isinstance(n, (ast.Nonlocal, ast.Global)):
          declared_nonlocal.update(n.names)
        elif isinstance(n, ast.ExceptHandler) and n.name:
          names.add(n.name)
        elif isinstance(n, (ast.Import, ast.ImportFrom)):
          for al in n.names:
            names.add((al.asname or al.name).split('.')[0])
      self._locals = names - declared_nonlocal
    return self._locals

  def __repr__(self):
    return f'<Func {self.qualname}>'


def _index_nested(fi):
  """Functions nested in a view's (copied) definition, as views' children:
  not registered with the project, reachable through `nested` only."""
  for st in walk_function(fi.node):
    if isinstance(st, (ast.FunctionDef, ast.AsyncFunctionDef)):
      sub = FuncInfo(fi.module, f'{fi.qualname}.{st.name}', st, fi)
      fi.nested[st.name] = sub
      _index_nested(sub)


class CallbackView(FuncInfo):
  """A function used as a callback with some leading parameters already bound
  (`functools.partial(f, a, b)`, a bound method, an instance with __call__):
  it reads like the closure it replaces - `params` are the parameters the
  caller of the callback supplies."""

  def __init__(self, base: FuncInfo, skip: int, outer: FuncInfo = None,
               bound: Dict[str, ast.expr] = None,
               attr_bound: Dict[str, ast.expr] = None):
    import copy as _copy
    self.__dict__.update(base.__dict__)
    self._base = base
    self._skip = skip
    self._locals = None
    bound = dict(bound or {})
    all_params = FuncInfo.params.fget(base)
    if outer is not None and not base.is_lambda and (
        outer.module is base.module or attr_bound):
      # read like the closure it replaces: parameters bound by the caller
      # stand for the bound expressions, the function sits inside `outer`
      node = _copy.deepcopy(base.node)
      keep_first = 1 if (base.cls is not None and skip >= 1) else 0
      own = (set(all_params[skip:]) - set(bound)) | {
          n.id for n in ast.walk(node) if isinstance(n, ast.Name) and
          isinstance(n.ctx, ast.Store)}
      safe = {k: v for k, v in bound.items() if (
          isinstance(v, ast.Name) and v.id == k) or not any(
              isinstance(x, ast.Name) and x.id in own for x in ast.walk(v))}

      self_name = all_params[0] if (base.cls is not None and all_params) else None
      attr_stores = {n.attr for n in ast.walk(node) if isinstance(
          n, ast.Attribute) and isinstance(n.ctx, (ast.Store, ast.Del)) and
                     isinstance(n.value, ast.Name) and n.value.id == self_name}
      attr_safe = {k: v for k, v in (attr_bound or {}).items()
                   if k not in attr_stores and not any(
                       isinstance(x, ast.Name) and x.id in own
                       for x in ast.walk(v))}

      class _S(ast.NodeTransformer):

        def visit_Name(self, n):
          if isinstance(n.ctx, ast.Load) and n.id in safe:
            return ast.copy_location(_copy.deepcopy(safe[n.id]), n)
          return n

        def visit_Attribute(self, n):
          # self.<field> of a callback object: what the object was made from
          if isinstance(n.ctx, ast.Load) and isinstance(
              n.value, ast.Name) and n.value.id == self_name and (
                  n.attr in attr_safe):
            return ast.copy_location(_copy.deepcopy(attr_safe[n.attr]), n)
          self.generic_visit(n)
          return n

      node.body = [_S().visit(st) for st in node.body]
      a = node.args
      drop = set(safe)
      a.posonlyargs = [x for x in a.posonlyargs if x.arg not in drop]
      n_def = len(a.defaults)
      pos = a.args
      defaults = [None] * (len(pos) - n_def) + list(a.defaults)
      kept = [(x, d) for x, d in zip(pos, defaults) if x.arg not in drop]
      a.args = [x for x, _ in kept]
      a.defaults = [d for _, d in kept if d is not None]
      kw = [(x, d) for x, d in zip(a.kwonlyargs, a.kw_defaults)
            if x.arg not in drop]
      a.kwonlyargs = [x for x, _ in kw]
      a.kw_defaults = [d for _, d in kw]
      ast.fix_missing_locations(node)
      self.node = node
      self.parent = outer
      self.qualname = f'{outer.qualname}.{base.name}'
      self._skip = keep_first
      self.nested = {}
      self.lambdas = []
      _index_nested(self)

  @property
  def params(self) -> List[str]:
    return FuncInfo.params.fget(self)[self._skip:]

  @property
  def bound_params(self) -> List[str]:
    return FuncInfo.params.fget(self)[:self._skip]


class ClassInfo(Scope):

  def __init__(self, module, qualname, node, parent):
    self.module = module
    self.qualname = qualname
    self.node = node
    self.parent = parent
    self.methods: Dict[str, FuncInfo] = {}
    self.annotations: Dict[str, ast.expr] = {}
    self.class_assigns: Dict[str, ast.expr] = {}
    self.bases: List[str] = []  # resolved qualified names (may be external)
    self.lambdas: List[FuncInfo] = []

  @property
  def name(self):
    return self.qualname.rsplit('.', 1)[-1]

  def __repr__(self):
    return f'<Class {self.qualname}>'


class Module(Scope):

  def __init__(self, name, path, src):
    self.name = name
    self.qualname = name
    self.path = path
    self.src = src
    self.tree = ast.parse(src, filename=path)
    self.module = self
    self.parent = None
    self.imports: Dict[str, str] = {}
    self.funcs: Dict[str, FuncInfo] = {}
    self.classes: Dict[str, ClassInfo] = {}
    self.assigns: Dict[str, ast.expr] = {}
    self.lambdas: List[FuncInfo] = []
    self.all_funcs: List[FuncInfo] = []
    self.all_classes: List[ClassInfo] = []

  @property
  def relpath(self):
    return os.path.relpath(self.path, REPO)

  def __repr__(self):
    return f'<Module {self.name}>'


def walk_function(fn_node) -> Iterator[ast.AST]:
  """Walks a function's own body, not descending into nested defs/lambdas/classes

  (the nested def nodes themselves are yielded).
  """
  if isinstance(fn_node, ast.Lambda):
    stack = [fn_node.body]
  else:
    stack = list(reversed(fn_node.body))
  while stack:
    n = stack.pop()
    yield n
    if isinstance(n, (ast.FunctionDef, ast.AsyncFunctionDef, ast.Lambda,
                      ast.ClassDef)):
      # decorators / defaults are evaluated in the enclosing scope
      if isinstance(n, ast.Lambda):
        extra = list(n.args.defaults) + [d for d in n.args.kw_defaults if d]
      elif isinstance(n, ast.ClassDef):
        extra = list(n.decorator_list) + list(n.bases)
      else:
        extra = (list(n.decorator_list) + list(n.args.defaults) +
                 [d for d in n.args.kw_defaults if d])
      stack.extend(reversed(extra))
      continue
    stack.extend(reversed(list(ast.iter_child_nodes(n))))


def walk_stmts(stmts) -> Iterator[ast.AST]:
  """Like walk_function but over a statement list."""
  fake = ast.FunctionDef(name='_', args=None, body=list(stmts),
                         decorator_list=[])
  return walk_function(fake)


# Private helpers that rules are anchored in and that are identified by the
# public / dunder method delegating to them when their name changes.
ROLE_ANCHORS = {
    'fiddle._src.config._buildable_flatten':
        ('callee-of', 'fiddle._src.config.Buildable.__flatten__'),
    'fiddle._src.config._buildable_path_elements':
        ('callee-of', 'fiddle._src.config.Buildable.__path_elements__'),
    'fiddle._src.config._register_buildable_defaults_aware_traversers':
        ('callee-of', 'fiddle._src.config.Buildable.__init_subclass__'),
}


class Project:
  """All analysed modules of the repo, with resolution helpers."""

  def __init__(self, repo: str = None, include_all: bool = True,
               expand=False):
    global REPO
    self.repo = repo or REPO
    REPO = self.repo  # Module.relpath is relative to the analysed tree
    self.modules: Dict[str, Module] = {}
    self.funcs: Dict[str, FuncInfo] = {}
    self.classes: Dict[str, ClassInfo] = {}
    self.files_parsed = 0
    self._load()
    self._link()
    self.inlined: List[str] = []
    if expand:
      # second view of the tree: see fdlstatic/inline.py, normalise.py.
      # expand = {'helpers': True | [caller qualnames] | False,
      #           'temps': bool, 'loops': bool}
      if not isinstance(expand, dict):
        expand = {'helpers': expand}
      from fdlstatic import inline, normalise  # pylint: disable=g-import-not-at-top
      hp = expand.get('helpers')
      if hp:
        self.inlined = inline.Inliner(
            self, None if hp is True else list(hp)).run().sites
        self._drop_expanded_helpers(inline)
      fns = [f for f in self.funcs.values() if not f.is_lambda]
      k_t = 0
      if expand.get('temps'):
        k_t = sum(normalise.eliminate_temps(f.node) for f in fns)
        kf = sum(normalise.fold_constant_branches(f.node) for f in fns)
        if kf:
          self.inlined.append(f'{kf} branch(es) on a constant flag folded')
      if expand.get('loops'):
        ku = k = 0
        for f in fns:
          ku1 = normalise.unroll_literal_loops(f.node)
          k1 = normalise.loops_to_comprehensions(f.node)
          ku += ku1
          k += k1
          if (ku1 or k1) and expand.get('temps'):
            k_t += normalise.eliminate_temps(f.node)   # only where it changed
        if ku:
          self.inlined.append(f'{ku} loop(s) over a literal table unrolled')
        if k:
          self.inlined.append(f'{k} accumulator loop(s) as comprehensions')
      if k_t:
        self.inlined.append(f'{k_t} single-assignment local(s) substituted')
      if hp and expand.get('temps'):
        ks = sum(normalise.sink_selected_calls(f.node) +
                 normalise.dispatch_table_calls(f.node) for f in fns)
        if ks:
          self.inlined.append(f'{ks} call(s) through a selected function '
                              'written at the selection')
          n0 = len(self.inlined)
          self.inlined += inline.Inliner(
              self, None if hp is True else list(hp)).run().sites
          touched = {s_.split(' <', 1)[0] for s_ in self.inlined[n0:]}
          k_t += sum(normalise.eliminate_temps(f.node) for f in fns
                     if f.qualname in touched)
      if hp and (expand.get('temps') or expand.get('loops')):
        # records whose aliases went away with the temporaries
        folder = inline.Inliner(self, None)
        for f in fns:
          if isinstance(f.node, ast.FunctionDef):
            if folder._fold_records(f) and expand.get('temps'):  # pylint: disable=protected-access
              normalise.eliminate_temps(f.node)
      for f in self.funcs.values():
        f._locals = None   # computed on the tree as written

  def _drop_expanded_helpers(self, inline):
    """Module-level helpers whose every use was expanded are dead in the view
    (nothing in the tree names them any more): they leave it, so that rules
    which scan all functions do not read the same statements twice, once in
    their context and once out of it.  Only private functions and functions
    the reference tree does not have are dropped."""
    if os.environ.get('FDLSTATIC_KEEP_EXPANDED'):
      return   # the view is being written out as source (unit tests of the
               # tree may still name private helpers)
    expanded = set()
    for s_ in self.inlined:
      for sep in (' <= ', ' <- '):
        if sep in s_:
          expanded.add(s_.split(sep, 1)[1])
    if not expanded:
      return
    attrs, names_by_mod, imported = set(), {}, set()
    for m in self.modules.values():
      nm = names_by_mod.setdefault(m.name, {})
      for n in ast.walk(m.tree):
        if isinstance(n, ast.Attribute):
          attrs.add(n.attr)
        elif isinstance(n, ast.Name):
          nm[n.id] = nm.get(n.id, 0) + 1
        elif isinstance(n, ast.ImportFrom):
          imported |= {al.name for al in n.names}
        elif isinstance(n, ast.Constant) and isinstance(n.value, str):
          imported.add(n.value)  # __all__, getattr(mod, 'name')
    for q in sorted(expanded):
      h = self.funcs.get(q)
      if h is None or h.is_lambda or h.parent is not h.module:
        continue
      if not (h.name.startswith('_') or inline._new_public_function(h)):  # pylint: disable=protected-access
        continue
      inside = sum(1 for n in ast.walk(h.node) if isinstance(
          n, ast.Name) and n.id == h.name)
      if h.name in attrs or h.name in imported or names_by_mod[
          h.module.name].get(h.name, 0) > inside:
        continue
      mod = h.module
      if h.node in mod.tree.body:
        mod.tree.body.remove(h.node)
      mod.funcs.pop(h.name, None)
      for fq in [fq for fq in self.funcs if fq == q or fq.startswith(q + '.')]:
        f = self.funcs.pop(fq)
        if f in mod.all_funcs:
          mod.all_funcs.remove(f)
      self.inlined.append(f'{q} left the view (every use expanded)')

  # ---------------------------------------------------------------- loading
  def _load(self):
    root = os.path.join(self.repo, PKG)
    if not os.path.isdir(root):
      raise AnalysisError(f'{root} is not a directory')
    for dirpath, dirnames, filenames in os.walk(root):
      dirnames.sort()
      for fn in sorted(filenames):
        path = os.path.join(dirpath, fn)
        rel = os.path.relpath(path, self.repo)
        if not is_analysed_file(rel):
          continue
        modname = rel[:-3].replace(os.sep, '.')
        if modname.endswith('.__init__'):
          modname = modname[:-len('.__init__')]
        with open(path, encoding='utf-8') as f:
          src = f.read()
        try:
          mod = Module(modname, path, src)
        except SyntaxError as e:
          raise AnalysisError(f'cannot parse {rel}: {e}')
        self.modules[modname] = mod
        self.files_parsed += 1
        self._index_module(mod)

  def _index_module(self, mod: Module):
    is_pkg = mod.path.endswith('__init__.py')

    def abs_import(node: ast.ImportFrom) -> str:
      if node.level == 0:
        return node.module or ''
      base = mod.name.split('.')
      if not is_pkg:
        base = base[:-1]
      if node.level > 1:
        base = base[:-(node.level - 1)]
      return '.'.join(base + ([node.module] if node.module else []))

    self._index_stmts(mod, mod.tree.body, mod, abs_import)
    # lambdas: owned by the innermost enclosing def (or module / class body)
    self._index_lambdas(mod, mod, mod.tree.body)
    for ci in list(mod.all_classes):
      self._index_lambdas(mod, ci, ci.node.body)
    for fi in list(mod.all_funcs):
      if not fi.is_lambda:
        self._index_lambdas(mod, fi, fi.node.body)

  def _index_lambdas(self, mod, owner, stmts):
    k = len(owner.lambdas)
    for n in walk_stmts(stmts):
      if isinstance(n, ast.Lambda):
        q = f'{owner.qualname}.<lambda#{k}>'
        k += 1
        fi = FuncInfo(mod, q, n, owner)
        owner.lambdas.append(fi)
        self._register_func(mod, fi)
        self._index_lambdas(mod, fi, [ast.Expr(value=n.body)])

  def _register_func(self, mod, fi):
    self.funcs[fi.qualname] = fi
    mod.all_funcs.append(fi)

  def _index_stmts(self, mod, stmts, scope, abs_import):
    for st in stmts:
      self._index_stmt(mod, st, scope, abs_import)

  def _index_stmt(self, mod, st, scope, abs_import):
    prefix = scope.qualname + '.'
    if isinstance(st, (ast.FunctionDef, ast.AsyncFunctionDef)):
      q = prefix + st.name
      fi = FuncInfo(mod, q, st, scope)
      if isinstance(scope, Module):
        scope.funcs[st.name] = fi
      elif isinstance(scope, ClassInfo):
        # keep the last definition but remember property setters separately
        if st.name in scope.methods and any(
            isinstance(d, ast.Attribute) and d.attr in ('setter', 'deleter')
            for d in st.decorator_list):
          q = q + '.' + [d.attr for d in st.decorator_list
                         if isinstance(d, ast.Attribute)][0]
          fi.qualname = q
        else:
          scope.methods[st.name] = fi
      else:
        scope.nested[st.name] = fi
      self._register_func(mod, fi)
      self._index_stmts(mod, st.body, fi, abs_import)
      return
    if isinstance(st, ast.ClassDef):
      q = prefix + st.name
      ci = ClassInfo(mod, q, st, scope)
      if isinstance(scope, (Module, FuncInfo)):
        scope.classes[st.name] = ci
      self.classes[q] = ci
      mod.all_classes.append(ci)
      self._index_stmts(mod, st.body, ci, abs_import)
      return
    if isinstance(scope, Module):
      if isinstance(st, ast.Import):
        for al in st.names:
          if al.asname:
            mod.imports[al.asname] = al.name
          else:
            mod.imports[al.name.split('.')[0]] = al.name.split('.')[0]
      elif isinstance(st, ast.ImportFrom):
        base = abs_import(st)
        for al in st.names:
          mod.imports[al.asname or al.name] = f'{base}.{al.name}'
      elif isinstance(st, ast.Assign) and len(st.targets) == 1 and isinstance(
          st.targets[0], ast.Name):
        mod.assigns[st.targets[0].id] = st.value
      elif isinstance(st, ast.AnnAssign) and isinstance(
          st.target, ast.Name) and st.value is not None:
        mod.assigns[st.target.id] = st.value
    elif isinstance(scope, ClassInfo):
      if isinstance(st, ast.Assign) and isinstance(
          st.value, ast.Name) and st.value.id in scope.methods:
        # `visit_X = _visit_common` in a class body: one method, two names
        for t in st.targets:
          if isinstance(t, ast.Name):
            scope.methods[t.id] = scope.methods[st.value.id]
      if isinstance(st, ast.AnnAssign) and isinstance(st.target, ast.Name):
        scope.annotations[st.target.id] = st.annotation
        if st.value is not None:
          scope.class_assigns[st.target.id] = st.value
      elif isinstance(st, ast.Assign) and len(st.targets) == 1 and isinstance(
          st.targets[0], ast.Name):
        scope.class_assigns[st.targets[0].id] = st.value
    # nested defs inside compound statements
    for field, value in ast.iter_fields(st):
      if isinstance(value, list):
        for sub in value:
          if isinstance(sub, ast.stmt):
            self._index_stmt(mod, sub, scope, abs_import)
          elif isinstance(sub, (ast.ExceptHandler, ast.match_case)):
            self._index_stmts(mod, sub.body, scope, abs_import)

  def _link(self):
    for ci in self.classes.values():
      for b in ci.node.bases:
        if isinstance(b, ast.Subscript):  # Generic[T], Buildable[T]
          b = b.value
        q = self.resolve(b, ci.parent if ci.parent else ci.module)
        if q:
          ci.bases.append(q)

  # ------------------------------------------------------------- resolution
  def canonical(self, q: str, _depth=0) -> str:
    """Follows re-exports / module-level aliases to the defining symbol."""
    if _depth > 12 or not q:
      return q
    if q in self.funcs or q in self.classes or q in self.modules:
      return q
    # split into module prefix + rest
    parts = q.split('.')
    for i in range(len(parts) - 1, 0, -1):
      m = '.'.join(parts[:i])
      if m in self.modules:
        mod = self.modules[m]
        head, rest = parts[i], parts[i + 1:]
        target = None
        if head in mod.imports:
          target = mod.imports[head]
        elif head in mod.assigns:
          r = self.resolve(mod.assigns[head], mod)
          if r and r != '.'.join([m, head]):
            target = r
        if target is None:
          return q
        return self.canonical('.'.join([target] + rest), _depth + 1)
    return q

  def resolve(self, expr: ast.expr, scope: Scope) -> Optional[str]:
    """Resolves a Name/Attribute expression to a qualified dotted name."""
    if isinstance(expr, ast.Constant) and isinstance(expr.value, str):
      try:
        expr = ast.parse(expr.value, mode='eval').body
      except SyntaxError:
        return None
    if isinstance(expr, ast.Subscript):
      return self.resolve(expr.value, scope)
    if isinstance(expr, ast.Name):
      return self._resolve_name(expr.id, scope)
    if isinstance(expr, ast.Attribute):
      base = self.resolve(expr.value, scope)
      if base is None:
        return None
      q = self.canonical(f'{base}.{expr.attr}')
      if q in self.funcs or q in self.classes or q in self.modules:
        return q
      # attribute of a module-level instance: bound method via its class
      vt = self.module_var_type(base)
      if vt:
        m = self.find_method(vt, expr.attr)
        if m:
          return m.qualname
      # method through MRO
      if base in self.classes:
        m = self.find_method(base, expr.attr)
        if m:
          return m.qualname
      return q
    return None

  def _resolve_name(self, name: str, scope: Scope) -> Optional[str]:
    s = scope
    while s is not None:
      if isinstance(s, FuncInfo):
        if name in s.nested:
          return s.nested[name].qualname
        if name in s.classes:
          return s.classes[name].qualname
        if name in s.local_names():
          return None  # a local variable: not statically a symbol
      elif isinstance(s, ClassInfo):
        pass  # class scope is not visible from methods
      elif isinstance(s, Module):
        if name in s.funcs:
          return s.funcs[name].qualname
        if name in s.classes:
          return s.classes[name].qualname
        if name in s.imports:
          return self.canonical(s.imports[name])
        if name in s.assigns:
          v = s.assigns[name]
          if isinstance(v, (ast.Name, ast.Attribute)):
            r = self.resolve(v, s)
            if r:
              return r
          return f'{s.name}.{name}'
      s = s.parent
    if hasattr(builtins, name):
      return f'builtins.{name}'
    return None

  def module_var_type(self, q: str) -> Optional[str]:
    """Class of a module-level variable assigned from a constructor call."""
    if '.' not in q:
      return None
    m, name = q.rsplit('.', 1)
    mod = self.modules.get(m)
    if mod is None or name not in mod.assigns:
      return None
    v = mod.assigns[name]
    if isinstance(v, ast.Call):
      c = self.resolve(v.func, mod)
      if c in self.classes:
        return c
    return None

  # ------------------------------------------------------------ class model
  def mro(self, cq: str) -> List[str]:
    out, seen = [], set()

    def rec(q):
      if q in seen:
        return
      seen.add(q)
      out.append(q)
      ci = self.classes.get(q)
      if ci:
        for b in ci.bases:
          rec(b)

    rec(cq)
    return out

  def is_subclass(self, cq: str, base: str) -> bool:
    return base in self.mro(cq)

  def subclasses(self, base: str, strict=False) -> List[str]:
    return sorted(q for q in self.classes
                  if base in self.mro(q) and (not strict or q != base))

  def find_method(self, cq: str, name: str) -> Optional[FuncInfo]:
    for q in self.mro(cq):
      ci = self.classes.get(q)
      if ci and name in ci.methods:
        return ci.methods[name]
    return None

  def class_attr_annotation(self, cq: str, attr: str):
    for q in self.mro(cq):
      ci = self.classes.get(q)
      if ci and attr in ci.annotations:
        return ci.annotations[attr], ci
    return None, None

  # --------------------------------------------------------------- helpers
  def func(self, q: str) -> FuncInfo:
    f = self.funcs.get(q)
    if f is None:
      f = self._relocated(q)
    if f is None:
      raise AnalysisError(f'anchor function {q} not found')
    return f

  def _relocated(self, q: str) -> Optional[FuncInfo]:
    """A function that was moved to another module or (un)privatised.

    Anchors name functions by qualified name; a refactoring that moves a
    private helper into another private module, or drops / adds the leading
    underscore, keeps its role.  If exactly one function (or method of the
    same class name) in the analysed tree has the same bare name, it is the
    anchor.  Imported aliases are followed first.
    """
    role = ROLE_ANCHORS.get(q)
    if role is not None and role[0] == 'callee-of':
      # a private helper known by what delegates to it: the only function of
      # the analysed tree that the (public / dunder) delegator calls
      d = self.funcs.get(role[1])
      if d is not None:
        callees = []
        for n in ast.walk(d.node):
          if isinstance(n, ast.Call):
            r = self.resolve(n.func, d)
            if r in self.funcs and r != d.qualname and r not in callees:
              callees.append(r)
        if len(callees) == 1:
          return self.funcs[callees[0]]
    modq, _, name = q.rpartition('.')
    outer = self.funcs.get(modq)
    if outer is None and modq not in self.modules and (
        modq not in self.classes) and (
            modq.rpartition('.')[0] in self.modules or
            modq.rpartition('.')[0] in self.funcs):
      outer = self._relocated(modq)  # the enclosing function moved as well
    if outer is not None and not outer.is_lambda:
      return self.nested_of(outer, name)
    mod = self.modules.get(modq)
    if mod is not None:
      # `from other import name` / `name = other.name` in the old module
      tgt = mod.imports.get(name) if hasattr(mod, 'imports') else None
      if tgt and tgt in self.funcs:
        return self.funcs[tgt]
      alias = mod.assigns.get(name) if hasattr(mod, 'assigns') else None
      if alias is not None:
        r = self.resolve(alias, mod)
        if r in self.funcs:
          return self.funcs[r]
    bare = name.lstrip('_')
    owner = modq.rsplit('.', 1)[-1] if modq in self.classes else None
    cands = []
    for fq, f in self.funcs.items():
      if f.is_lambda:
        continue
      if f.name.lstrip('_') != bare:
        continue
      if owner is not None:
        if f.cls is None or f.cls.name != owner:
          continue
      elif f.cls is not None or '.' in fq[len(f.module.name) + 1:]:
        continue  # methods / nested functions do not stand in for module ones
      cands.append(f)
    return cands[0] if len(cands) == 1 else None

  def nested_of(self, outer: FuncInfo, name: str) -> Optional[FuncInfo]:
    """The function nested in `outer` that plays the part `name` played: the
    one of that name; else the only nested function; else the only nested
    function that `outer` hands to a call as an argument (a callback) or
    returns.  A local function's name is not part of any interface."""
    if name in outer.nested:
      return outer.nested[name]
    # lifted to module level under the same name (give or take a leading
    # underscore) and still used from inside `outer`
    bare = name.lstrip('_')
    used = {n.id for n in ast.walk(outer.node) if isinstance(n, ast.Name)}
    lifted = [h for hn, h in outer.module.funcs.items()
              if hn.lstrip('_') == bare and hn in used and h is not outer]
    if len(lifted) == 1:
      return lifted[0]
    cands = list(outer.nested.values())
    if len(cands) == 1:
      return cands[0]
    passed = []
    for n in ast.walk(outer.node):
      if isinstance(n, ast.Call):
        for a in list(n.args) + [k.value for k in n.keywords]:
          if isinstance(a, ast.Name) and a.id in outer.nested:
            passed.append(a.id)
      elif isinstance(n, ast.Return) and isinstance(
          n.value, ast.Name) and n.value.id in outer.nested:
        passed.append(n.value.id)
    passed = sorted(set(passed))
    if len(passed) == 1:
      return outer.nested[passed[0]]
    if not cands:
      cb = self.callback_of(outer)
      if cb is None:
        # a module-level function `outer` calls that starts its own traversal
        # (hands itself to begin / run): the recursive closure, lifted
        selfstart = []
        for hn, h in outer.module.funcs.items():
          if h is outer or hn not in used:
            continue
          for c in ast.walk(h.node):
            if isinstance(c, ast.Call) and unparse(c.func).split('.')[-1] in (
                self._RUNNERS) and any(
                    isinstance(a, ast.Name) and a.id == hn for a in c.args):
              selfstart.append(h)
              break
        if len(selfstart) == 1:
          cb = selfstart[0]
      if cb is None:
        # ... or a callable object made and called here:
        # `collect = _Collector(root=cfg)` ... `collect(cfg)`
        objs = []
        for n in ast.walk(outer.node):
          if isinstance(n, ast.Assign) and len(n.targets) == 1 and isinstance(
              n.targets[0], ast.Name) and isinstance(n.value, ast.Call):
            cq = self.resolve(n.value.func, outer)
            m = self.find_method(cq, '__call__') if cq in self.classes else None
            if m is not None and any(
                isinstance(c, ast.Call) and isinstance(c.func, ast.Name) and
                c.func.id == n.targets[0].id for c in ast.walk(outer.node)):
              objs.append((m, self._instance_fields(cq, n.value)))
        if len(objs) == 1:
          cb = CallbackView(objs[0][0], 1, outer, {}, objs[0][1] or {'': None})
      if cb is None and getattr(self, 'ctx', None) is not None:
        # the closure written as a module-level function that takes its free
        # variables as parameters
        lifted = list(self.ctx.lifted_helpers(outer).values())
        if len(lifted) == 1:
          cb = lifted[0]
      return cb
    return None

  def through_delegation(self, f: FuncInfo, depth: int = 2) -> FuncInfo:
    """`f`, or - when all f does is `return h(...)` / `yield from h(...)` with
    h a function of the tree - h read with f's arguments in place of its
    parameters and f's parameter list (a view; h itself is not changed)."""
    while depth > 0 and f is not None and not f.is_lambda:
      body = [st for st in f.node.body if not (
          isinstance(st, ast.Expr) and isinstance(st.value, ast.Constant))]
      if len(body) != 1:
        break
      st = body[0]
      call = None
      if isinstance(st, ast.Return) and isinstance(st.value, ast.Call):
        call = st.value
      elif isinstance(st, ast.Expr) and isinstance(
          st.value, ast.YieldFrom) and isinstance(st.value.value, ast.Call):
        call = st.value.value
      if call is None:
        break
      h = self.funcs.get(self.resolve(call.func, f) or '')
      ctx = getattr(self, 'ctx', None)
      if h is None or h.is_lambda or h is f or ctx is None or (
          h.cls is not None):
        break
      b = ctx.bound_args(call, f)
      if b is None or set(b) != set(h.params):
        break
      outer = f.parent if isinstance(f.parent, FuncInfo) else f
      view = CallbackView(h, 0, outer, b)
      if set(view.params):
        break   # some argument could not be substituted
      import copy as _copy
      view.node.args = _copy.deepcopy(f.node.args)
      view.qualname = f.qualname
      view.parent = f.parent
      f = view
      depth -= 1
    return f

  def callbacks(self, outer: FuncInfo) -> List[FuncInfo]:
    """The local callbacks of `outer`: its nested functions, or - when it has
    none - the function it hands to a traversal (see callback_of)."""
    out = list(outer.nested.values())
    if not out:
      cb = self.callback_of(outer)
      if cb is not None:
        out = [cb]
    return out

  _RUNNERS = ('run', 'begin', 'MemoizedTraversal', 'BasicTraversal',
              'traverse_with_path', 'memoized_traverse')

  def callback_of(self, outer: FuncInfo) -> Optional[FuncInfo]:
    """The function `outer` hands to a traversal as its callback when that is
    no longer a closure: a module-level function (possibly with leading
    arguments bound by functools.partial), a bound method, or an instance of a
    class with __call__.  None unless there is exactly one."""
    found = {}
    bindings: Dict[str, ast.expr] = {}
    attr_bindings: Dict[str, ast.expr] = {}

    def local_value(name):
      vals = [n.value for n in ast.walk(outer.node) if isinstance(
          n, ast.Assign) and any(isinstance(t, ast.Name) and t.id == name
                                 for t in n.targets)]
      return vals[0] if len(vals) == 1 else None

    def resolve_cb(e, depth=0):
      if depth > 3:
        return None
      if isinstance(e, ast.Name):
        v = local_value(e.id)
        if v is not None:
          return resolve_cb(v, depth + 1)
        q = self.resolve(e, outer)
        if q in self.funcs:
          return self.funcs[q], 0
        if q in self.classes:
          return None
        return None
      if isinstance(e, ast.Call):
        fq = self.resolve(e.func, outer) or ''
        if fq == 'functools.partial' and e.args:
          r = resolve_cb(e.args[0], depth + 1)
          if r is not None:
            base_params = FuncInfo.params.fget(r[0])
            for prm, a_ in zip(base_params[r[1]:], e.args[1:]):
              bindings[prm] = a_
            for k_ in e.keywords:
              if k_.arg:
                bindings[k_.arg] = k_.value
            return r[0], r[1] + len(e.args) - 1
          return None
        if fq in self.classes:  # an instance used as the callback
          m = self.find_method(fq, '__call__')
          if m is not None:
            attr_bindings.update(self._instance_fields(fq, e))
            return m, 1
        return None
      if isinstance(e, ast.Attribute):
        base = e.value
        if isinstance(base, ast.Name):
          v = local_value(base.id)
          if isinstance(v, ast.Call):
            cq = self.resolve(v.func, outer) or ''
            if cq in self.classes:
              m = self.find_method(cq, e.attr)
              if m is not None:
                return m, 1
        q = self.resolve(e, outer)
        if q in self.funcs:
          return self.funcs[q], 0
      return None

    for n in ast.walk(outer.node):
      if not isinstance(n, ast.Call):
        continue
      tail = unparse(n.func).split('.')[-1]
      if tail not in self._RUNNERS:
        continue
      cand = n.args[0] if n.args else None
      for k in n.keywords:
        if k.arg in ('traversal_fn', 'fn'):
          cand = k.value
        elif k.arg is None and isinstance(k.value, ast.Name):
          # **kwargs built beforehand: dict(traversal_fn=f, ...) / {...}
          kv = local_value(k.value.id)
          if isinstance(kv, ast.Call) and isinstance(
              kv.func, ast.Name) and kv.func.id == 'dict':
            for k2 in kv.keywords:
              if k2.arg in ('traversal_fn', 'fn'):
                cand = k2.value
          elif isinstance(kv, ast.Dict):
            for dk, dv in zip(kv.keys, kv.values):
              if isinstance(dk, ast.Constant) and dk.value in (
                  'traversal_fn', 'fn'):
                cand = dv
      if cand is None:
        continue
      r = resolve_cb(cand)
      if r is not None and r[0].qualname != outer.qualname:
        found[(r[0].qualname, r[1])] = r
    if len(found) == 1:
      base, skip = next(iter(found.values()))
      if skip or bindings or attr_bindings:
        return CallbackView(base, skip, outer, bindings, attr_bindings)
      return base
    return None

  def _instance_fields(self, cq: str, ctor: ast.Call) -> Dict[str, ast.expr]:
    """attribute -> constructor argument for `C(args)`: through `self.a = p`
    in C.__init__, or the annotated fields of a dataclass / NamedTuple."""
    ci = self.classes.get(cq)
    if ci is None or any(isinstance(a, ast.Starred) for a in ctor.args) or any(
        k.arg is None for k in ctor.keywords):
      return {}
    init = ci.methods.get('__init__')
    out: Dict[str, ast.expr] = {}
    if init is None:
      fields = [k for k in ci.annotations]
      if len(ctor.args) > len(fields):
        return {}
      out = dict(zip(fields, ctor.args))
      out.update({k.arg: k.value for k in ctor.keywords if k.arg in fields})
      return out
    params = init.params[1:]
    if len(ctor.args) > len(params):
      return {}
    b = dict(zip(params, ctor.args))
    b.update({k.arg: k.value for k in ctor.keywords if k.arg in params})
    slf = init.params[0]
    n_stores: Dict[str, int] = {}
    for n in walk_function(init.node):
      if isinstance(n, ast.Assign) and len(n.targets) == 1 and isinstance(
          n.targets[0], ast.Attribute) and isinstance(
              n.targets[0].value, ast.Name) and n.targets[0].value.id == slf:
        a = n.targets[0].attr
        n_stores[a] = n_stores.get(a, 0) + 1
        if isinstance(n.value, ast.Name) and n.value.id in b:
          out[a] = b[n.value.id]
    return {a: v for a, v in out.items() if n_stores.get(a) == 1}

  def cls(self, q: str) -> ClassInfo:
    c = self.classes.get(q)
    if c is None:
      raise AnalysisError(f'anchor class {q} not found')
    return c

  def mod(self, q: str) -> Module:
    m = self.modules.get(q)
    if m is None:
      raise AnalysisError(f'anchor module {q} not found')
    return m

  def loc(self, scope: Scope, node: ast.AST) -> str:
    return f'{scope.module.relpath}:{getattr(node, "lineno", 0)}'

  def enclosing_func_of(self, mod: Module, node: ast.AST) -> Optional[FuncInfo]:
    best = None
    for f in mod.all_funcs:
      n = f.node
      if (n.lineno, n.col_offset) <= (node.lineno, node.col_offset) and (
          node.end_lineno, node.end_col_offset) <= (n.end_lineno,
                                                    n.end_col_offset):
        if best is None or (n.lineno, n.col_offset) >= (best.node.lineno,
                                                        best.node.col_offset):
          best = f
    return best


def unparse(node) -> str:
  try:
    return ast.unparse(node)
  except Exception:  # pragma: no cover
    return '<?>'


def dotted(expr) -> Optional[str]:
  """Textual dotted form of a Name/Attribute chain (`self.x.y`), else None."""
  if isinstance(expr, ast.Name):
    return expr.id
  if isinstance(expr, ast.Attribute):
    b = dotted(expr.value)
    return f'{b}.{expr.attr}' if b else None
  return None


def root_name(expr) -> Optional[str]:
  """Root variable of an access path `a.b[c].d` -> `a`."""
  while isinstance(expr, (ast.Attribute, ast.Subscript, ast.Starred)):
    expr = expr.value
  if isinstance(expr, ast.Name):
    return expr.id
  return None


def call_name(call: ast.Call) -> Optional[str]:
  return dotted(call.func)


def norm_text(f, expr, limit: int = 70) -> str:
  """Source text of `expr` with the function's own local variables (not its

  parameters) replaced by <v1>, <v2>, ... in order of first appearance, so
  that construct keys survive a renaming of locals.
  """
  import copy
  e = copy.deepcopy(expr)
  locs = set()
  if f is not None and hasattr(f, 'local_names'):
    locs = set(f.local_names()) - set(f.params)
  mapping = {}
  names = [n for n in ast.walk(e) if isinstance(n, ast.Name)]
  names.sort(key=lambda n: (getattr(n, 'lineno', 0), getattr(n, 'col_offset', 0)))
  for n in names:
    if n.id in locs:
      if n.id not in mapping:
        mapping[n.id] = f'__v{len(mapping) + 1}__'
      n.id = mapping[n.id]
  txt = unparse(e)
  for i in range(len(mapping), 0, -1):
    txt = txt.replace(f'__v{i}__', f'<v{i}>')
  return txt[:limit]

