"""Finite case analysis over None-ness: a tiny abstract interpreter.

Some converters only look at their input through `x.attr is None` tests and
shuffle the attributes around in a list before emitting them.  Their result is
then a function of which attributes are None - finitely many cases - and can be
decided exactly by interpreting the function body once per case over symbolic
atoms.  Supported statements: assignments of list displays / names, `if`
(tests: `is None`, `is not None`, `len(x) <op> n`, and / or / not),
`x.pop()`, `x.pop(i)`, `x.append(e)`, `x.insert(i, e)`, `del x[i]`, and a final
`return`.  Anything else raises Unsupported: the rule then reports that it
cannot decide (never a guess).
"""
from __future__ import annotations

import ast
import itertools
from typing import Dict, List, Optional

from fdlstatic.model import unparse


class Unsupported(Exception):
  pass


class Atom:
  """A symbolic attribute value: `name` and whether it is None in this case."""

  def __init__(self, name: str, is_none: bool):
    self.name = name
    self.is_none = is_none

  def __repr__(self):
    return f'{self.name}{"=None" if self.is_none else ""}'


class _Return(Exception):

  def __init__(self, value):
    self.value = value


class Interp:

  def __init__(self, param: str, attrs: List[str], case: Dict[str, bool]):
    self.param = param
    self.atoms = {a: Atom(a, case[a]) for a in attrs}
    self.env: Dict[str, object] = {}

  # -- expressions
  def ev(self, e):
    if isinstance(e, ast.Constant):
      return e.value
    if isinstance(e, ast.Attribute) and isinstance(
        e.value, ast.Name) and e.value.id == self.param and e.attr in self.atoms:
      return self.atoms[e.attr]
    if isinstance(e, ast.Name):
      if e.id in self.env:
        return self.env[e.id]
      raise Unsupported(f'unknown name {e.id}')
    if isinstance(e, (ast.List, ast.Tuple)):
      out = []
      for x in e.elts:
        if isinstance(x, ast.Starred):
          out += list(self.ev(x.value))
        else:
          out.append(self.ev(x))
      return out
    if isinstance(e, ast.Subscript):
      v = self.ev(e.value)
      if isinstance(e.slice, ast.Slice):
        lo = self.ev(e.slice.lower) if e.slice.lower else None
        hi = self.ev(e.slice.upper) if e.slice.upper else None
        st = self.ev(e.slice.step) if e.slice.step else None
        return list(v[lo:hi:st])
      return v[self.ev(e.slice)]
    if isinstance(e, ast.UnaryOp) and isinstance(e.op, ast.Not):
      return not self.truth(e.operand)
    if isinstance(e, ast.UnaryOp) and isinstance(e.op, ast.USub):
      return -self.ev(e.operand)
    if isinstance(e, ast.BoolOp):
      if isinstance(e.op, ast.And):
        return all(self.truth(v) for v in e.values)
      return any(self.truth(v) for v in e.values)
    if isinstance(e, ast.Compare) and len(e.ops) == 1:
      a, b = self.ev(e.left), self.ev(e.comparators[0])
      op = e.ops[0]
      if isinstance(op, (ast.Is, ast.IsNot)):
        if b is None and isinstance(a, Atom):
          r = a.is_none
        elif a is None and isinstance(b, Atom):
          r = b.is_none
        elif isinstance(a, Atom) or isinstance(b, Atom):
          raise Unsupported('identity test between atoms')
        else:
          r = a is b
        return r if isinstance(op, ast.Is) else not r
      if isinstance(a, Atom) or isinstance(b, Atom):
        raise Unsupported('ordering / equality of a symbolic value')
      table = {ast.Lt: a.__lt__, ast.LtE: a.__le__, ast.Gt: a.__gt__,
               ast.GtE: a.__ge__, ast.Eq: a.__eq__, ast.NotEq: a.__ne__}
      if type(op) not in table:
        raise Unsupported(unparse(e))
      return table[type(op)](b)
    if isinstance(e, ast.Call) and isinstance(e.func, ast.Name) and (
        e.func.id == 'len') and len(e.args) == 1:
      return len(self.ev(e.args[0]))
    if isinstance(e, ast.IfExp):
      return self.ev(e.body) if self.truth(e.test) else self.ev(e.orelse)
    raise Unsupported(unparse(e)[:60])

  def truth(self, e):
    v = self.ev(e)
    if isinstance(v, Atom):
      raise Unsupported('truthiness of a symbolic value')
    return bool(v)

  # -- statements
  def run(self, body):
    try:
      self.block(body)
    except _Return as r:
      return r.value
    return None

  def block(self, body):
    for st in body:
      self.stmt(st)

  def stmt(self, st):
    if isinstance(st, ast.Expr) and isinstance(st.value, ast.Constant):
      return  # docstring
    if isinstance(st, ast.Assign) and len(st.targets) == 1 and isinstance(
        st.targets[0], ast.Name):
      self.env[st.targets[0].id] = self.ev(st.value)
      return
    if isinstance(st, ast.If):
      self.block(st.body if self.truth(st.test) else st.orelse)
      return
    if isinstance(st, ast.Expr) and isinstance(st.value, ast.Call) and isinstance(
        st.value.func, ast.Attribute) and isinstance(
            st.value.func.value, ast.Name):
      lst = self.env.get(st.value.func.value.id)
      args = [self.ev(a) for a in st.value.args]
      m = st.value.func.attr
      if isinstance(lst, list) and m in ('pop', 'append', 'insert', 'reverse'):
        getattr(lst, m)(*args)
        return
    if isinstance(st, ast.Delete) and len(st.targets) == 1 and isinstance(
        st.targets[0], ast.Subscript):
      lst = self.ev(st.targets[0].value)
      del lst[self.ev(st.targets[0].slice)]
      return
    if isinstance(st, ast.Return):
      raise _Return(st.value)
    raise Unsupported(f'statement `{unparse(st)[:60]}`')


def cases(attrs: List[str]):
  for bits in itertools.product([True, False], repeat=len(attrs)):
    yield dict(zip(attrs, bits))
