"""Light type inference and a resolved call graph over the Project.

Edges: ('call', exact|approx), ('ref') for function values loaded without being
called (callbacks, functools.partial, registrations), ('nested') from a def to
its nested defs/lambdas.  Unknown receivers fall back to class-hierarchy lookup
by method name over repo classes (marked approx) - an over-approximation.
"""
from __future__ import annotations

import ast
from typing import Dict, List, Optional, Set, Tuple

from fdlstatic.model import (ClassInfo, FuncInfo, Module, Project, Scope,
                             walk_function)

# Method names whose unknown-receiver fallback would only add noise: they are
# overwhelmingly calls on builtin containers / strings in this code base.
_BUILTIN_METHODS = {
    'append', 'extend', 'pop', 'get', 'items', 'keys', 'values', 'update',
    'add', 'join', 'format', 'split', 'startswith', 'endswith', 'copy',
    'setdefault', 'remove', 'discard', 'clear', 'insert', 'sort', 'index',
    'count', 'strip', 'lstrip', 'rstrip', 'replace', 'lower', 'upper', 'union',
    'intersection', 'difference', 'issubset', 'encode', 'decode', 'group',
    'match', 'search', 'write', 'read', 'popitem', 'reverse', 'isidentifier',
    'title', 'find', 'rsplit', 'splitlines', 'partition', 'rpartition',
    'with_traceback', 'bind', 'bind_partial', 'apply_defaults', 'indices',
    'fullmatch', 'finditer', 'sub', 'groups', 'groupdict', 'exception',
    'warning', 'info', 'error', 'debug', 'is_integer', 'hex', 'most_common',
    'total', 'send', 'throw', 'close', 'isdigit', 'isalnum', 'isalpha',
}


def strip_annotation(expr: ast.expr) -> Optional[ast.expr]:
  """Optional[X] / Union[X, None] / 'X' / X[T] -> X."""
  if expr is None:
    return None
  if isinstance(expr, ast.Constant) and isinstance(expr.value, str):
    try:
      return strip_annotation(ast.parse(expr.value, mode='eval').body)
    except SyntaxError:
      return None
  if isinstance(expr, ast.Subscript):
    head = expr.value
    hn = head.attr if isinstance(head, ast.Attribute) else getattr(
        head, 'id', None)
    if hn in ('Optional',):
      return strip_annotation(expr.slice)
    if hn == 'Union':
      elts = expr.slice.elts if isinstance(expr.slice, ast.Tuple) else [
          expr.slice]
      non_none = [e for e in elts
                  if not (isinstance(e, ast.Constant) and e.value is None)]
      if len(non_none) == 1:
        return strip_annotation(non_none[0])
      return None
    if hn in ('Type',):
      return None
    return head
  if isinstance(expr, ast.BinOp) and isinstance(expr.op, ast.BitOr):
    sides = [s for s in (expr.left, expr.right)
             if not (isinstance(s, ast.Constant) and s.value is None)]
    if len(sides) == 1:
      return strip_annotation(sides[0])
    return None
  return expr


class Types:
  """Flow-insensitive, annotation-driven expression typing."""

  def __init__(self, project: Project):
    self.p = project
    self._local_cache: Dict[Tuple[str, str], Optional[str]] = {}
    self._in_progress: Set[Tuple[str, str]] = set()

  def annotation_class(self, ann: ast.expr, scope: Scope) -> Optional[str]:
    e = strip_annotation(ann)
    if e is None:
      return None
    return self.p.resolve(e, scope)

  def enclosing_class(self, f: FuncInfo) -> Optional[ClassInfo]:
    s = f
    while s is not None:
      if isinstance(s, FuncInfo) and s.cls is not None:
        return s.cls
      s = s.parent
    return None

  def method_owner(self, f: FuncInfo) -> Optional[Tuple[ClassInfo, str]]:
    """(class, 'self'|'cls') if f is (nested in) a method with such a param."""
    s = f
    while s is not None:
      if isinstance(s, FuncInfo) and s.cls is not None and not s.is_lambda:
        decos = {getattr(d, 'id', getattr(d, 'attr', None))
                 for d in s.decorators}
        if 'staticmethod' in decos:
          return None
        params = s.params
        if params:
          return s.cls, params[0]
        return None
      s = s.parent
    return None

  def type_of(self, expr: ast.expr, f: Scope) -> Optional[str]:
    p = self.p
    if isinstance(expr, ast.Name):
      return self._name_type(expr.id, f)
    if isinstance(expr, ast.Attribute):
      bt = self.type_of(expr.value, f)
      if bt and bt in p.classes:
        ann, owner = p.class_attr_annotation(bt, expr.attr)
        if ann is not None:
          return self.annotation_class(ann, owner.parent or owner.module)
        m = p.find_method(bt, expr.attr)
        if m is not None and not m.is_lambda:
          decos = {getattr(d, 'id', getattr(d, 'attr', None))
                   for d in m.decorators}
          if 'property' in decos or 'cached_property' in decos:
            if m.node.returns is not None:
              return self.annotation_class(m.node.returns, m.module)
        # instance attribute assigned in __init__ / __post_init__
        for init in ('__init__', '__post_init__'):
          im = p.find_method(bt, init)
          if im:
            for n in walk_function(im.node):
              if isinstance(n, ast.Assign):
                for t in n.targets:
                  if (isinstance(t, ast.Attribute) and t.attr == expr.attr and
                      isinstance(t.value, ast.Name) and
                      t.value.id == (im.params[0] if im.params else '')):
                    r = self.type_of(n.value, im)
                    if r:
                      return r
        return None
      # module-level instance
      q = p.resolve(expr, f)
      if q:
        vt = p.module_var_type(q)
        if vt:
          return vt
      return None
    if isinstance(expr, ast.Call):
      q = p.resolve(expr.func, f)
      if q in p.classes:
        return q
      if q in p.funcs:
        fn = p.funcs[q]
        if not fn.is_lambda and fn.node.returns is not None:
          return self.annotation_class(fn.node.returns, fn.module)
        return None
      if isinstance(expr.func, ast.Attribute):
        bt = self.type_of(expr.func.value, f)
        if bt:
          m = p.find_method(bt, expr.func.attr)
          if m and not m.is_lambda and m.node.returns is not None:
            return self.annotation_class(m.node.returns, m.module)
      return None
    if isinstance(expr, ast.IfExp):
      a, b = self.type_of(expr.body, f), self.type_of(expr.orelse, f)
      return a if a == b else (a or b)
    return None

  def _name_type(self, name: str, f: Scope) -> Optional[str]:
    p = self.p
    s = f
    while s is not None:
      if isinstance(s, FuncInfo):
        key = (s.qualname, name)
        if key in self._local_cache:
          r = self._local_cache[key]
          if r is not None or name in s.local_names():
            return r
        if name in s.local_names():
          if key in self._in_progress:
            return None
          self._in_progress.add(key)
          try:
            r = self._local_type(name, s)
          finally:
            self._in_progress.discard(key)
          self._local_cache[key] = r
          return r
      elif isinstance(s, Module):
        q = p._resolve_name(name, s)
        if q:
          return p.module_var_type(q)
      s = s.parent
    return None

  def _local_type(self, name: str, f: FuncInfo) -> Optional[str]:
    p = self.p
    mo = None
    if f.cls is not None and not f.is_lambda:
      mo = self.method_owner(f)
    if mo and name == mo[1] and f.cls is mo[0]:
      return mo[0].qualname
    if name in f.params:
      ann = f.param_annotation(name)
      if ann is not None:
        return self.annotation_class(ann, f.module if f.parent is None else f)
      return None
    found = set()
    for n in walk_function(f.node):
      if isinstance(n, ast.Assign):
        for t in n.targets:
          if isinstance(t, ast.Name) and t.id == name:
            found.add(self.type_of(n.value, f))
      elif isinstance(n, ast.AnnAssign) and isinstance(
          n.target, ast.Name) and n.target.id == name:
        found.add(self.annotation_class(n.annotation, f))
      elif isinstance(n, (ast.For, ast.comprehension)):
        tgt = n.target
        for t in ast.walk(tgt):
          if isinstance(t, ast.Name) and t.id == name:
            found.add(None)
      elif isinstance(n, ast.withitem) and n.optional_vars is not None:
        for t in ast.walk(n.optional_vars):
          if isinstance(t, ast.Name) and t.id == name:
            found.add(None)
    found.discard(None) if len(found) > 1 else None
    if len(found) == 1:
      return next(iter(found))
    return None


class CallGraph:

  def __init__(self, project: Project, types: Types = None):
    self.p = project
    self.types = types or Types(project)
    # f.qualname -> {callee qualname: kind}; kind in exact|approx|ref|nested
    self.edges: Dict[str, Dict[str, str]] = {}
    self.call_sites: Dict[str, List[Tuple[ast.Call, List[str], bool]]] = {}
    self.resolved = 0
    self.approx = 0
    self.unresolved = 0
    self.external = 0
    self._methods_by_name: Dict[str, List[FuncInfo]] = {}
    for ci in project.classes.values():
      for m in ci.methods.values():
        self._methods_by_name.setdefault(m.name, []).append(m)
    for q, f in project.funcs.items():
      self._build_for(f)
    # module-level code (registrations at import time)
    for m in project.modules.values():
      self._build_for_module(m)

  def _add(self, src: str, dst: str, kind: str):
    d = self.edges.setdefault(src, {})
    order = {'exact': 0, 'nested': 0, 'ref': 1, 'inst': 1, 'proto': 2,
             'approx': 3}
    if dst not in d or order[kind] < order[d[dst]]:
      d[dst] = kind

  def resolve_call(self, call: ast.Call, f: Scope) -> Tuple[List[str], bool]:
    """Returns (callee qualnames in repo, exact?)."""
    p = self.p
    fn = call.func
    q = p.resolve(fn, f)
    if q in p.funcs:
      return [q], True
    if q in p.classes:
      out = []
      for nm in ('__init__', '__post_init__', '__new__', '__init_subclass__'):
        m = p.find_method(q, nm)
        if m and nm != '__init_subclass__':
          out.append(m.qualname)
      return out or [], True
    if isinstance(fn, ast.Attribute):
      recv = fn.value
      # super().m(...)
      if (isinstance(recv, ast.Call) and isinstance(recv.func, ast.Name) and
          recv.func.id == 'super'):
        ec = self.types.enclosing_class(f) if isinstance(f, FuncInfo) else None
        if ec:
          for b in p.mro(ec.qualname)[1:]:
            ci = p.classes.get(b)
            if ci and fn.attr in ci.methods:
              return [ci.methods[fn.attr].qualname], True
        return [], True
      bt = self.types.type_of(recv, f)
      if bt and bt in p.classes:
        out = []
        m = p.find_method(bt, fn.attr)
        if m:
          out.append(m.qualname)
        for sub in p.subclasses(bt, strict=True):
          ci = p.classes[sub]
          if fn.attr in ci.methods:
            out.append(ci.methods[fn.attr].qualname)
        if out:
          return sorted(set(out)), True
        return [], True
      if q is not None and not q.startswith(('fiddle.', 'builtins.')) is False:
        pass
      if q is not None and q.split('.')[0] not in ('fiddle',):
        return [], True  # external library call
      if fn.attr in _BUILTIN_METHODS:
        return [], True
      cands = self._methods_by_name.get(fn.attr, [])
      if cands:
        return sorted(m.qualname for m in cands), False
      return [], q is not None
    if q is not None:
      return [], True  # builtin / external
    return [], False

  def _scan(self, owner_q: str, nodes, scope: Scope):
    p = self.p
    call_funcs = set()
    sites = self.call_sites.setdefault(owner_q, [])
    nodes = list(nodes)
    for n in nodes:
      if isinstance(n, ast.Call):
        call_funcs.add(id(n.func))
        callees, exact = self.resolve_call(n, scope)
        sites.append((n, callees, exact))
        if callees:
          if exact:
            self.resolved += 1
          else:
            self.approx += 1
        elif exact:
          self.external += 1
        else:
          self.unresolved += 1
        for c in callees:
          self._add(owner_q, c, 'exact' if exact else 'approx')
        # an instance of a class with __call__ may be used as a callback
        cq = p.resolve(n.func, scope)
        if cq in p.classes:
          m_call = p.find_method(cq, '__call__')
          if m_call is not None and m_call.qualname.startswith('fiddle.'):
            self._add(owner_q, m_call.qualname, 'inst')
    # protocol edges into Buildable's dunder methods
    B = 'fiddle._src.config.Buildable'
    if B in p.classes:
      def bmeth(name):
        m = p.find_method(B, name)
        return m.qualname if m else None

      def buildable_typed(e):
        t = self.types.type_of(e, scope)
        if t and t in p.classes:
          return B in p.mro(t)
        return None

      for n in nodes:
        if isinstance(n, ast.Call) and isinstance(
            n.func, ast.Name) and n.func.id in (
                'setattr', 'delattr', 'getattr') and n.args:
          bt = buildable_typed(n.args[0])
          if bt is not False:
            m = bmeth(f'__{n.func.id}__')
            if m:
              self._add(owner_q, m, 'exact' if bt else 'proto')
        tgts = []
        if isinstance(n, ast.Assign):
          tgts = [(t, 'set') for t in n.targets]
        elif isinstance(n, ast.AugAssign):
          tgts = [(n.target, 'set')]
        elif isinstance(n, ast.Delete):
          tgts = [(t, 'del') for t in n.targets]
        for t, how in tgts:
          if isinstance(t, ast.Attribute) and buildable_typed(t.value):
            m = bmeth('__setattr__' if how == 'set' else '__delattr__')
            if m and not (t.attr.startswith('__') and t.attr.endswith('__')):
              self._add(owner_q, m, 'exact')
          elif isinstance(t, ast.Subscript) and buildable_typed(t.value):
            m = bmeth('__setitem__' if how == 'set' else '__delitem__')
            if m:
              self._add(owner_q, m, 'exact')
    for n in nodes:
      if isinstance(n, (ast.Name, ast.Attribute)) and isinstance(
          getattr(n, 'ctx', None), ast.Load) and id(n) not in call_funcs:
        q = p.resolve(n, scope)
        if q in p.funcs:
          self._add(owner_q, q, 'ref')
        elif q in p.classes and isinstance(n, ast.Attribute) is False:
          pass
        elif isinstance(n, ast.Attribute):
          bt = self.types.type_of(n.value, scope)
          if bt and bt in p.classes:
            m = p.find_method(bt, n.attr)
            if m:
              decos = {getattr(d, 'id', getattr(d, 'attr', None))
                       for d in m.decorators}
              self._add(owner_q, m.qualname,
                        'exact' if 'property' in decos else 'ref')

  def _build_for(self, f: FuncInfo):
    self.edges.setdefault(f.qualname, {})
    for sub in list(f.nested.values()) + f.lambdas:
      self._add(f.qualname, sub.qualname, 'nested')
    for c in f.classes.values():
      for m in c.methods.values():
        self._add(f.qualname, m.qualname, 'nested')
    self._scan(f.qualname, walk_function(f.node), f)

  def _build_for_module(self, m: Module):
    q = m.name + '.<module>'
    self.edges.setdefault(q, {})
    body = [s for s in m.tree.body
            if not isinstance(s, (ast.FunctionDef, ast.AsyncFunctionDef,
                                  ast.ClassDef))]
    from fdlstatic.model import walk_stmts
    self._scan(q, walk_stmts(body), m)
    for lam in m.lambdas:
      self._add(q, lam.qualname, 'nested')

  def reachable(self, roots, kinds=('exact', 'approx', 'ref', 'nested', 'proto',
                                    'inst'),
                stop=None) -> Dict[str, Optional[str]]:
    """BFS; returns {qualname: predecessor} (roots map to None)."""
    pred: Dict[str, Optional[str]] = {}
    work = []
    for r in roots:
      if r not in pred:
        pred[r] = None
        work.append(r)
    while work:
      q = work.pop()
      if stop and q in stop:
        continue
      for dst, kind in self.edges.get(q, {}).items():
        if kind in kinds and dst not in pred:
          pred[dst] = q
          work.append(dst)
    return pred

  def path_to(self, pred, q) -> List[str]:
    out = []
    while q is not None:
      out.append(q)
      q = pred.get(q)
    return list(reversed(out))

  def callers_of(self, target: str, kinds=('exact', 'approx')) -> List[str]:
    return sorted(src for src, d in self.edges.items()
                  if target in d and d[target] in kinds)
