"""Type-dispatch chains analysed on the CFG rather than on their layout.

`if isinstance(x, A): ... elif isinstance(x, B): ... else: raise` can equally be
written with guard clauses, negated tests or swapped arms.  These helpers
decide what such a chain does per class by following the CFG under the
assumption "x is an instance of exactly class K" (or of none of the tested
classes), with every test that is not about x's class going both ways.
"""
from __future__ import annotations

import ast
from typing import Callable, Dict, List, Optional, Set, Tuple

from fdlstatic import cfg as cfg_lib
from fdlstatic.model import unparse


def class_names(type_expr) -> List[str]:
  elts = type_expr.elts if isinstance(type_expr, (ast.Tuple, ast.List)) else [
      type_expr]
  return [unparse(e).split('.')[-1] for e in elts]


def eval_test(test, subject: Optional[str], kind: Optional[str]):
  """Three-valued truth of `test` when `subject` is an instance of exactly the

  class named `kind` (None: of none of the classes tested).  `subject` None
  matches isinstance tests on any expression.
  """
  if isinstance(test, ast.UnaryOp) and isinstance(test.op, ast.Not):
    v = eval_test(test.operand, subject, kind)
    return None if v is None else not v
  if isinstance(test, ast.BoolOp):
    vals = [eval_test(v, subject, kind) for v in test.values]
    if isinstance(test.op, ast.And):
      if any(v is False for v in vals):
        return False
      return True if all(v is True for v in vals) else None
    if any(v is True for v in vals):
      return True
    return False if all(v is False for v in vals) else None
  if isinstance(test, ast.Call) and unparse(test.func) == 'isinstance' and len(
      test.args) == 2 and (subject is None or unparse(test.args[0]) == subject):
    return kind is not None and kind in class_names(test.args[1])
  return None


def tested_classes(f_node, subject: Optional[str]) -> List[str]:
  out = []
  for n in ast.walk(f_node):
    if isinstance(n, ast.Call) and unparse(n.func) == 'isinstance' and len(
        n.args) == 2 and (subject is None or unparse(n.args[0]) == subject):
      for c in class_names(n.args[1]):
        if c not in out:
          out.append(c)
  return out


def reach_for(g, subject: Optional[str], kind: Optional[str],
              start: Optional[List[int]] = None,
              evaluator: Callable = eval_test) -> Set[int]:
  """CFG nodes reachable (no exceptional edges) under the class assumption."""
  seen: Set[int] = set()
  stack = list(start if start is not None else [g.entry])
  while stack:
    n = stack.pop()
    if n in seen:
      continue
    seen.add(n)
    v = None
    if g.kind[n] in ('if', 'while'):
      v = evaluator(g.stmt[n].test, subject, kind)
    for m, lab in g.succ[n]:
      if lab == 'exc':
        continue
      if v is True and lab == 'false':
        continue
      if v is False and lab == 'true':
        continue
      stack.append(m)
  return seen


def default_raises(g, subject: Optional[str]) -> bool:
  """An instance of none of the tested classes cannot reach a normal exit."""
  r = reach_for(g, subject, None)
  return g.exit not in r and g.raise_exit in r


def only_for(g, subject: Optional[str], classes: List[str],
             pred: Callable[[int], bool]) -> Dict[str, List[int]]:
  """For each class: the nodes satisfying `pred` that are reachable for that

  class but not for an instance of no tested class.
  """
  base = reach_for(g, subject, None)
  out = {}
  for k in classes:
    r = reach_for(g, subject, k)
    out[k] = sorted(n for n in r if pred(n) and n not in base)
  return out


def eval_atoms(test, atom_eval: Callable[[ast.expr], Optional[bool]]):
  """Three-valued truth of `test` given truth values for some atoms."""
  v = atom_eval(test)
  if v is not None:
    return v
  if isinstance(test, ast.UnaryOp) and isinstance(test.op, ast.Not):
    v = eval_atoms(test.operand, atom_eval)
    return None if v is None else not v
  if isinstance(test, ast.BoolOp):
    vals = [eval_atoms(x, atom_eval) for x in test.values]
    if isinstance(test.op, ast.And):
      if any(x is False for x in vals):
        return False
      return True if all(x is True for x in vals) else None
    if any(x is True for x in vals):
      return True
    return False if all(x is False for x in vals) else None
  if isinstance(test, ast.Constant) and isinstance(test.value, bool):
    return test.value
  if isinstance(test, ast.IfExp):
    # `a if c else b` as a truth value
    c = eval_atoms(test.test, atom_eval)
    if c is True:
      return eval_atoms(test.body, atom_eval)
    if c is False:
      return eval_atoms(test.orelse, atom_eval)
    a, b = eval_atoms(test.body, atom_eval), eval_atoms(test.orelse, atom_eval)
    return a if a is b and a is not None else None
  return None


def reach_atoms(g, atom_eval: Callable[[ast.expr], Optional[bool]],
                start: Optional[List[int]] = None,
                stop: Optional[Set[int]] = None) -> Set[int]:
  """Nodes reachable when the given atoms have the given truth values (tests

  the atoms do not decide go both ways; exceptional edges are not followed).
  """
  seen: Set[int] = set()
  stack = list(start if start is not None else [g.entry])
  stop = stop or set()
  while stack:
    n = stack.pop()
    if n in seen or n in stop:
      continue
    seen.add(n)
    v = eval_atoms(g.stmt[n].test, atom_eval) if g.kind[n] in (
        'if', 'while') else None
    for m, lab in g.succ[n]:
      if lab == 'exc' or (v is True and lab == 'false') or (
          v is False and lab == 'true'):
        continue
      stack.append(m)
  return seen


def returned_under(g, atom_eval: Callable[[ast.expr], Optional[bool]],
                   f=None) -> List[ast.expr]:
  """Expressions the function can return when the atoms have the given truth
  values.  A conditional expression `a if c else b` in a return (directly or,
  with `f`, through a single-assignment local) counts as two returns, each
  under its arm of `c`.  A bare `return` / falling off the end is reported as
  a Constant(None)."""
  from fdlstatic import roles  # pylint: disable=g-import-not-at-top
  out: List[ast.expr] = []

  def arms(v, depth=0):
    if f is not None and isinstance(v, ast.Name) and depth < 3:
      d = roles.deref(f, v, 1)
      if isinstance(d, ast.IfExp):
        v = d
    if isinstance(v, ast.IfExp):
      t = eval_atoms(v.test, atom_eval)
      if t is not False:
        arms(v.body, depth + 1)
      if t is not True:
        arms(v.orelse, depth + 1)
    else:
      out.append(v)

  r = reach_atoms(g, atom_eval)
  for n in sorted(r):
    st = g.stmt[n]
    if isinstance(st, ast.Return) and g.kind[n] == 'stmt':
      arms(st.value if st.value is not None else ast.Constant(value=None))
  return out


def through_locals(f, ev, depth: int = 3):
  """An atom evaluator that also decides a test written as a local holding
  the tested expression (`is_x = <test>; if is_x:`)."""
  from fdlstatic import roles  # pylint: disable=g-import-not-at-top

  def ev2(t, d=depth):
    v = ev(t)
    if v is not None:
      return v
    if isinstance(t, ast.Name) and d > 0:
      e = roles.deref(f, t, 1)
      if e is not t:
        return eval_atoms(e, lambda x: ev2(x, d - 1))
    return None

  return ev2
