"""Analysis context shared by all rules: project, call graph, CFG cache, helpers."""
from __future__ import annotations

import ast
from typing import Dict, Iterable, Iterator, List, Optional, Sequence, Set, Tuple

from fdlstatic import cfg as cfg_lib
from fdlstatic.callgraph import CallGraph, Types
from fdlstatic.model import (AnalysisError, ClassInfo, FuncInfo, Module,
                             Project, Scope, dotted, root_name, unparse,
                             walk_function, walk_stmts)


class Ctx:

  def __init__(self, repo: str = None, expand=False):
    self.p = Project(repo, expand=expand)
    self.p.ctx = self
    self.types = Types(self.p)
    from fdlstatic.rules import sigrules  # pylint: disable=g-import-not-at-top
    sigrules.register_kind_constants(self.p)
    self._cg: Optional[CallGraph] = None
    self._cfgs: Dict[str, cfg_lib.CFG] = {}

  @property
  def cg(self) -> CallGraph:
    if self._cg is None:
      self._cg = CallGraph(self.p, self.types)
    return self._cg

  def cfg(self, f: FuncInfo) -> cfg_lib.CFG:
    key = (f.qualname, id(f.node))   # views of one function have their own
    g = self._cfgs.get(key)
    if g is None:
      g = self._cfgs[key] = cfg_lib.CFG(f.body, f.qualname)
    return g

  # ------------------------------------------------------------- anchors
  def func(self, q) -> FuncInfo:
    return self.p.func(q)

  def cls(self, q) -> ClassInfo:
    return self.p.cls(q)

  def mod(self, q) -> Module:
    return self.p.mod(q)

  def funcs_in(self, modname: str) -> List[FuncInfo]:
    return list(self.mod(modname).all_funcs)

  def loc(self, f: Scope, node) -> str:
    return f'{f.module.relpath}:{getattr(node, "lineno", 0)}'

  # ------------------------------------------------------------- queries
  def lifted_helpers(self, f: FuncInfo) -> Dict[str, FuncInfo]:
    """Module-level functions that `f` calls with some of its own locals in
    the same argument position at every call site - closures written with
    their free variables as parameters.  Each is returned as the closure it
    stands for (model.CallbackView): the bound parameters read as f's locals.
    """
    from fdlstatic.model import CallbackView
    sites: Dict[str, List[ast.Call]] = {}
    for c in self.calls(f):
      q = self.p.resolve(c.func, f)
      h = self.p.funcs.get(q) if q else None
      if h is None or h.is_lambda or h.cls is not None or (
          h.parent is not h.module) or h.module is not f.module or h is f:
        continue
      sites.setdefault(q, []).append(c)
    out = {}
    own = f.local_names()
    # loop variables of loops around a call are per-call data: parameters
    # proper, not closure variables
    per_call = set()
    for lp in walk_function(f.node):
      if isinstance(lp, (ast.For, ast.AsyncFor)) and any(
          c is x for cs in sites.values() for c in cs for x in ast.walk(lp)):
        per_call |= {x.id for x in ast.walk(lp.target)
                     if isinstance(x, ast.Name)}
    own = own - per_call
    for q, calls in sites.items():
      h = self.p.funcs[q]
      bounds = [self.bound_args(c, f) for c in calls]
      if any(b is None for b in bounds):
        continue
      bound = {}
      # calls of the helper to itself must hand the parameter on unchanged
      inner = [self.bound_args(c, h) for c in self.calls(h)
               if self.p.resolve(c.func, h) == q]
      for prm in h.params:
        if any(b is None or prm not in b or unparse(b[prm]) != prm
               for b in inner):
          continue
        vals = {unparse(b[prm]) for b in bounds if prm in b}
        first = bounds[0].get(prm)
        if len(vals) == 1 and isinstance(first, ast.Name) and (
            first.id in own) and all(prm in b for b in bounds):
          bound[prm] = first
      if bound:
        out[h.name] = CallbackView(h, 0, f, bound)
    return out

  def const(self, expr, scope: Scope, depth: int = 2):
    """`expr`, or the module-level constant it names (NAME = <tuple / set /
    frozenset(...)> at module level, never rebound in a function)."""
    while depth > 0 and isinstance(expr, ast.Name):
      mod = scope.module
      v = mod.assigns.get(expr.id) if hasattr(mod, 'assigns') else None
      if v is None:
        break
      f = scope if isinstance(scope, FuncInfo) else None
      if f is not None and any(
          isinstance(n, ast.Name) and n.id == expr.id and isinstance(
              n.ctx, (ast.Store, ast.Del)) for n in walk_function(f.node)):
        break
      expr = v
      depth -= 1
    return expr

  def bound_args(self, call: ast.Call, scope: Scope) -> Optional[Dict[str, ast.expr]]:
    """Parameter name -> argument expression of a call to a function or class
    of the analysed tree (positional and keyword arguments bound as Python
    binds them; dataclass-style classes without __init__ take their annotated
    fields in order).  None if the callee or the binding is not known."""
    q = self.p.resolve(call.func, scope)
    params = None
    if q in self.p.funcs:
      f = self.p.funcs[q]
      params = list(f.params)
      if f.cls is not None and params and params[0] in ('self', 'cls'):
        params = params[1:]
    elif q in self.p.classes:
      ci = self.p.classes[q]
      init = self.p.find_method(q, '__init__')
      if init is not None and init.qualname.startswith('fiddle.'):
        params = list(init.params)[1:]
      else:
        params = [k for k in ci.annotations if k not in ci.class_assigns or True]
    if params is None or any(isinstance(a, ast.Starred) for a in call.args) \
        or any(k.arg is None for k in call.keywords) or len(
            call.args) > len(params):
      return None
    out = dict(zip(params, call.args))
    for k in call.keywords:
      if k.arg in out or k.arg not in params:
        return None
      out[k.arg] = k.value
    return out

  def calls(self, f: FuncInfo) -> List[ast.Call]:
    return [n for n in walk_function(f.node) if isinstance(n, ast.Call)]

  def callee(self, call: ast.Call, f: Scope) -> Optional[str]:
    """Resolved qualified name of the callee expression (may be external)."""
    q = self.p.resolve(call.func, f)
    if q is not None and (q in self.p.funcs or q in self.p.classes or
                          not q.startswith('fiddle.')):
      return q
    if isinstance(call.func, ast.Attribute):
      callees, exact = self.cg.resolve_call(call, f)
      if exact and len(callees) >= 1:
        return callees[0]
    return q

  def callees(self, call: ast.Call, f: Scope) -> List[str]:
    q = self.p.resolve(call.func, f)
    if q is not None and q not in self.p.funcs and q not in self.p.classes:
      out = [q]
    else:
      out = []
    cs, _ = self.cg.resolve_call(call, f)
    return out + cs + ([q] if q in self.p.classes else [])

  def is_call_to(self, node, f: Scope, *targets: str) -> bool:
    if not isinstance(node, ast.Call):
      return False
    q = self.p.resolve(node.func, f)
    if q in targets:
      return True
    if isinstance(node.func, ast.Attribute):
      cs, exact = self.cg.resolve_call(node, f)
      return exact and any(c in targets for c in cs)
    return False

  def method_call(self, node, attr: str) -> bool:
    return (isinstance(node, ast.Call) and
            isinstance(node.func, ast.Attribute) and node.func.attr == attr)

  def stmt_of(self, f: FuncInfo, node: ast.AST) -> Optional[ast.stmt]:
    """Innermost simple statement / compound header of f containing node."""
    g = self.cfg(f)
    for n in g.nodes():
      st = g.stmt[n]
      if st is None:
        continue
      for e in cfg_lib.node_exprs(g, n):
        for sub in ast.walk(e):
          if sub is node:
            return st
    return None

  def node_of(self, f: FuncInfo, node: ast.AST) -> List[int]:
    """CFG nodes of f whose evaluated expressions contain `node`."""
    g = self.cfg(f)
    out = []
    for n in g.nodes():
      for e in cfg_lib.node_exprs(g, n):
        if any(sub is node for sub in ast.walk(e)):
          out.append(n)
          break
    return out

  def analysed_summary(self, funcs: Iterable[str] = (), extra=None) -> Dict:
    d = {
        'files_parsed': self.p.files_parsed,
        'functions_indexed': len(self.p.funcs),
        'classes_indexed': len(self.p.classes),
    }
    if self._cg is not None:
      d.update({
          'call_sites_resolved_exact': self.cg.resolved,
          'call_sites_resolved_approx_by_method_name': self.cg.approx,
          'call_sites_external_or_builtin': self.cg.external,
          'call_sites_unresolved': self.cg.unresolved,
      })
    fl = sorted(set(funcs))
    if fl:
      d['functions_examined'] = fl
    if extra:
      d.update(extra)
    return d


# ---------------------------------------------------------------- AST helpers
def attr_stores(stmt_or_nodes) -> Iterator[Tuple[ast.Attribute, ast.AST]]:
  """(target Attribute, statement) for attribute assignments/deletes."""
  for n in stmt_or_nodes:
    if isinstance(n, ast.Assign):
      for t in n.targets:
        for s in _flatten_targets(t):
          if isinstance(s, ast.Attribute):
            yield s, n
    elif isinstance(n, (ast.AugAssign, ast.AnnAssign)):
      if isinstance(n.target, ast.Attribute):
        yield n.target, n
    elif isinstance(n, ast.Delete):
      for t in n.targets:
        if isinstance(t, ast.Attribute):
          yield t, n


def _flatten_targets(t) -> Iterator[ast.AST]:
  if isinstance(t, (ast.Tuple, ast.List)):
    for e in t.elts:
      yield from _flatten_targets(e)
  elif isinstance(t, ast.Starred):
    yield from _flatten_targets(t.value)
  else:
    yield t


def assigned_names(stmt) -> List[str]:
  out = []
  if isinstance(stmt, ast.Assign):
    for t in stmt.targets:
      out += [x.id for x in _flatten_targets(t) if isinstance(x, ast.Name)]
  elif isinstance(stmt, (ast.AugAssign, ast.AnnAssign)):
    if isinstance(stmt.target, ast.Name):
      out.append(stmt.target.id)
  elif isinstance(stmt, (ast.For, ast.AsyncFor)):
    out += [x.id for x in _flatten_targets(stmt.target)
            if isinstance(x, ast.Name)]
  elif isinstance(stmt, (ast.With, ast.AsyncWith)):
    for it in stmt.items:
      if it.optional_vars is not None:
        out += [x.id for x in _flatten_targets(it.optional_vars)
                if isinstance(x, ast.Name)]
  return out


def names_in(node) -> Set[str]:
  return {n.id for n in ast.walk(node) if isinstance(n, ast.Name)}


def const_str(node) -> Optional[str]:
  if isinstance(node, ast.Constant) and isinstance(node.value, str):
    return node.value
  return None


def kwarg(call: ast.Call, name: str) -> Optional[ast.expr]:
  for k in call.keywords:
    if k.arg == name:
      return k.value
  return None


def kwarg_deep(call: ast.Call, name: str, f) -> Optional[ast.expr]:
  """kwarg(call, name), also when the keyword travels in a dict that was put
  together beforehand: `kw = dict(name=v, ...)` / `kw = {'name': v}` followed
  by `g(**kw)` (the dict held in a single-assignment local of `f`)."""
  v = kwarg(call, name)
  if v is not None or f is None or f.is_lambda:
    return v
  from fdlstatic import roles  # pylint: disable=g-import-not-at-top
  for k in call.keywords:
    if k.arg is None:
      d = roles.deref(f, k.value) if isinstance(k.value, ast.Name) else k.value
      if isinstance(d, ast.Call) and isinstance(
          d.func, ast.Name) and d.func.id == 'dict' and not d.args:
        for k2 in d.keywords:
          if k2.arg == name:
            return k2.value
      elif isinstance(d, ast.Dict):
        for dk, dv in zip(d.keys, d.values):
          if isinstance(dk, ast.Constant) and dk.value == name:
            return dv
  return None


def arg(call: ast.Call, idx: int, name: str = None) -> Optional[ast.expr]:
  if len(call.args) > idx and not any(
      isinstance(a, ast.Starred) for a in call.args[:idx + 1]):
    return call.args[idx]
  if name:
    return kwarg(call, name)
  return None
