#!/bin/bash
# usage: tools/ingest_round8.sh C03 C05 ...   ingests /tmp/wt8-out/<P>/{patch,demo,meta}_<P>_{8,9}
# on scratch copies (tools/ingest_seed_scratch.py), two at a time.
cd "$(dirname "$0")/.."
for p in "$@"; do
  for i in 8 9; do
    if [ -f /tmp/wt8-out/$p/patch_${p}_$i.diff ] && [ ! -d seeded/${p}_$i ]; then
      /venv/bin/python tools/ingest_seed_scratch.py /tmp/wt8-out/$p ${p}_$i 2>&1 | grep -v WARNING &
    fi
  done
  wait
done
