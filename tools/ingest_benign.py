#!/venv/bin/python
"""Confirms one independently written behaviour-preserving refactoring and
stores it under benign/<id>/ with what every check said about it.

usage: tools/ingest_benign.py <dir with patch_<id>.diff equiv_<id>.py meta_<id>.json> <id>

The author's equivalence script is run on the unchanged /repo and with the
patch applied (git -C /repo apply ... / checkout -- .): its output must be
byte-identical and its exit status 0 both times.  Then all 20 checks run on
the patched tree: every one must exit 0 without a VIOLATION line.  A check
that is not silent has raised a false alarm; the result is recorded either
way.
"""
import json
import os
import shutil
import subprocess
import sys

VERIF = os.path.dirname(os.path.dirname(os.path.abspath(__file__)))
REPO = '/repo'
PROPS = [f'C{i:02d}' for i in range(1, 21)]


def sh(cmd, cwd=None):
  r = subprocess.run(cmd, cwd=cwd, capture_output=True, text=True)
  return r.returncode, r.stdout, r.stderr


def main():
  src, sid = sys.argv[1], sys.argv[2]
  patch = os.path.join(src, f'patch_{sid}.diff')
  equiv = os.path.join(src, f'equiv_{sid}.py')
  with open(os.path.join(src, f'meta_{sid}.json')) as f:
    am = json.load(f)
  rc, out, _ = sh(['git', '-C', REPO, 'status', '--porcelain'])
  if out.strip():
    sys.exit('refusing: /repo working tree is not clean')
  rc0, out0, err0 = sh(['/venv/bin/python', equiv], cwd=REPO)
  rc, _, err = sh(['git', '-C', REPO, 'apply', patch])
  if rc != 0:
    sys.exit(f'{sid}: patch does not apply: {err[-300:]}')
  checks = {}
  try:
    rc1, out1, err1 = sh(['/venv/bin/python', equiv], cwd=REPO)
    for p in PROPS:
      env = dict(os.environ, FDLSTATIC_NO_EVIDENCE='1')
      r = subprocess.run(['/venv/bin/python', '-B', '-m', 'fdlstatic.main', p,
                          '--no-evidence'], cwd=VERIF, env=env,
                         capture_output=True, text=True)
      lines = [l for l in r.stdout.splitlines() if l.startswith(
          ('[', 'ANALYSIS-ERROR'))]
      checks[p] = {'rc': r.returncode,
                   'silent': r.returncode == 0 and 'VIOLATION' not in r.stdout,
                   'reports': [l[:300] for l in lines[:4]]}
  finally:
    sh(['git', '-C', REPO, 'checkout', '--', '.'])
    sh(['git', '-C', REPO, 'clean', '-fdq', 'fiddle'])
  equivalent = rc0 == 0 and rc1 == 0 and out0 == out1
  d = os.path.join(VERIF, 'benign', sid)
  os.makedirs(d, exist_ok=True)
  shutil.copy(patch, os.path.join(d, 'patch.diff'))
  shutil.copy(equiv, os.path.join(d, 'equiv.py'))
  loud = [p for p, v in checks.items() if not v['silent']]
  meta = {
      'id': sid, 'property': am.get('property', sid.split('_')[0]),
      'kind': am.get('kind', ''), 'summary': am.get('summary', ''),
      'functions': am.get('functions', ''),
      'why_equivalent': am.get('why_equivalent', ''),
      'author': 'independent sub-agent given only the property text and a '
                'scratch worktree; asked for behaviour-preserving refactorings',
      'author_tests_passed': am.get('tests_passed', ''),
      'confirmed_by_me': {
          'equiv_rc_clean': rc0, 'equiv_rc_patched': rc1,
          'equiv_output_identical': out0 == out1,
          'equiv_output_lines': len(out0.splitlines()),
      },
      'first_not_silent': {p: checks[p] for p in loud},
  }
  with open(os.path.join(d, 'meta.json'), 'w') as f:
    json.dump(meta, f, indent=1)
    f.write('\n')
  print(f'{sid}: equivalent={equivalent} (rc {rc0}/{rc1}, '
        f'{len(out0.splitlines())} lines); not silent: {",".join(loud) or "none"}')
  for p in loud:
    for l in checks[p]['reports'][:2]:
      print('    ', p, l[:220])


if __name__ == '__main__':
  main()
