#!/venv/bin/python
"""Confirms one independently written behaviour-preserving refactoring and
stores it under benign/<id>/ with what every check said about it.

usage: tools/ingest_benign.py <dir with patch_<id>.diff equiv_<id>.py meta_<id>.json> <id> [store-as-id]

The author's equivalence script is run on a scratch copy of /repo's fiddle/
as it is and with the patch applied: its output must be
byte-identical and its exit status 0 both times.  Then all 20 checks run on
the patched tree: every one must exit 0 without a VIOLATION line.  A check
that is not silent has raised a false alarm; the result is recorded either
way.
"""
import json
import os
import shutil
import subprocess
import sys

VERIF = os.path.dirname(os.path.dirname(os.path.abspath(__file__)))
REPO = '/repo'
PROPS = [f'C{i:02d}' for i in range(1, 21)]


def sh(cmd, cwd=None):
  r = subprocess.run(cmd, cwd=cwd, capture_output=True, text=True)
  return r.returncode, r.stdout, r.stderr


def main():
  src, sid = sys.argv[1], sys.argv[2]
  store = sys.argv[3] if len(sys.argv) > 3 else sid
  patch = os.path.join(src, f'patch_{sid}.diff')
  equiv = os.path.join(src, f'equiv_{sid}.py')
  with open(os.path.join(src, f'meta_{sid}.json')) as f:
    am = json.load(f)
  # everything happens on a scratch copy of /repo's fiddle/ (the equivalence
  # script imports the checkout in its working directory)
  import tempfile
  tmp = tempfile.mkdtemp(prefix='fdlstatic-ingest-')
  checks = {}
  try:
    shutil.copytree(os.path.join(REPO, 'fiddle'), os.path.join(tmp, 'fiddle'),
                    ignore=shutil.ignore_patterns('__pycache__', '*.pyc'))
    rc0, out0, err0 = sh(['/venv/bin/python', equiv], cwd=tmp)
    rc, _, err = sh(['git', 'apply', patch], cwd=tmp)
    if rc != 0:
      sys.exit(f'{sid}: patch does not apply: {err[-300:]}')
    rc1, out1, err1 = sh(['/venv/bin/python', equiv], cwd=tmp)
    import concurrent.futures

    def one(p):
      env = dict(os.environ, FDLSTATIC_NO_EVIDENCE='1', FDLSTATIC_REPO=tmp)
      r = subprocess.run(['/venv/bin/python', '-B', '-m', 'fdlstatic.main', p,
                          '--repo', tmp, '--no-evidence'], cwd=VERIF, env=env,
                         capture_output=True, text=True)
      lines = [l for l in r.stdout.splitlines() if l.startswith(
          ('[', 'ANALYSIS-ERROR'))]
      return p, {'rc': r.returncode,
                 'silent': r.returncode == 0 and 'VIOLATION' not in r.stdout,
                 'reports': [l[:300] for l in lines[:4]]}

    with concurrent.futures.ThreadPoolExecutor(max_workers=10) as ex:
      for p, v in ex.map(one, PROPS):
        checks[p] = v
  finally:
    shutil.rmtree(tmp, ignore_errors=True)
  equivalent = rc0 == 0 and rc1 == 0 and out0 == out1
  d = os.path.join(VERIF, 'benign', store)
  os.makedirs(d, exist_ok=True)
  shutil.copy(patch, os.path.join(d, 'patch.diff'))
  shutil.copy(equiv, os.path.join(d, 'equiv.py'))
  loud = [p for p, v in checks.items() if not v['silent']]
  meta = {
      'id': store, 'property': am.get('property', sid.split('_')[0]),
      'round': 5 if store != sid else 4,
      'kind': am.get('kind', ''), 'summary': am.get('summary', ''),
      'functions': am.get('functions', ''),
      'why_equivalent': am.get('why_equivalent', ''),
      'author': 'independent sub-agent given only the property text and a '
                'scratch worktree; asked for behaviour-preserving refactorings',
      'author_tests_passed': am.get('tests_passed', ''),
      'confirmed_by_me': {
          'equiv_rc_clean': rc0, 'equiv_rc_patched': rc1,
          'equiv_output_identical': out0 == out1,
          'equiv_output_lines': len(out0.splitlines()),
      },
      'first_not_silent': {p: checks[p] for p in loud},
  }
  with open(os.path.join(d, 'meta.json'), 'w') as f:
    json.dump(meta, f, indent=1)
    f.write('\n')
  print(f'{store}: equivalent={equivalent} (rc {rc0}/{rc1}, '
        f'{len(out0.splitlines())} lines); not silent: {",".join(loud) or "none"}')
  for p in loud:
    for l in checks[p]['reports'][:2]:
      print('    ', p, l[:220])


if __name__ == '__main__':
  main()
