#!/venv/bin/python
"""Behaviour preservation of the views, tested where the view steps actually
fire: for a kept refactoring (benign/<id>), the patched tree's full view
(helpers + temps + loops) is written out as source and the library's unit
tests are run on it.

usage: tools/view_test.py <benign id> [...]
"""
import os
import shutil
import subprocess
import sys
import tempfile

VERIF = os.path.dirname(os.path.dirname(os.path.abspath(__file__)))


def one(bid):
  base = tempfile.mkdtemp(prefix='fdlstatic-vt-base-')
  out = tempfile.mkdtemp(prefix='fdlstatic-vt-view-')
  try:
    shutil.copytree('/repo/fiddle', os.path.join(base, 'fiddle'),
                    ignore=shutil.ignore_patterns('__pycache__', '*.pyc'))
    r = subprocess.run(['git', 'apply', os.path.join(
        VERIF, 'benign', bid, 'patch.diff')], cwd=base, capture_output=True,
                       text=True)
    if r.returncode:
      return f'{bid}: patch does not apply'
    code = (
        'import sys; sys.path.insert(0, %r); sys.path.insert(0, %r)\n'
        'import alpha\n'
        'alpha.REPO = %r\n'
        'print(alpha.make_view_variant(%r, "normal"))\n' % (
            os.path.join(VERIF, 'selftest'), VERIF, base, out))
    r = subprocess.run(['/venv/bin/python', '-c', code], capture_output=True,
                       text=True, env=dict(os.environ, FDLSTATIC_REPO=base))
    if r.returncode:
      return f'{bid}: view could not be written: {r.stderr[-400:]}'
    t = subprocess.run(['/venv/bin/python', '-m', 'pytest', '-q', '-p',
                        'no:cacheprovider', '-n', '8', 'fiddle'], cwd=out,
                       capture_output=True, text=True)
    last = t.stdout.strip().splitlines()[-1] if t.stdout.strip() else (
        t.stderr[-200:])
    fails = [l for l in t.stdout.splitlines() if l.startswith('FAILED')]
    return f'{bid}: {last}' + ''.join('\n   ' + l[:200] for l in fails[:8])
  finally:
    shutil.rmtree(base, ignore_errors=True)
    shutil.rmtree(out, ignore_errors=True)


if __name__ == '__main__':
  for b in sys.argv[1:]:
    print(one(b), flush=True)
