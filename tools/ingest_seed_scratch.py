#!/venv/bin/python
"""Confirms one independently written seeded change on a scratch copy of
/repo's fiddle/ and stores it under seeded/<id>/ (like tools/ingest_seed.py,
which applies the patch to /repo itself; this one can run in parallel).

usage: tools/ingest_seed_scratch.py <dir with patch_<id>.diff demo_<id>.py meta_<id>.json> <id> [<id to store under>]

The author's demo is run in the scratch copy without and with the patch: it
is kept only if it passes (exit 0) on the unchanged tree and fails with the
change.  Then all 20 checks run on the patched copy.
"""
import concurrent.futures
import json
import os
import shutil
import subprocess
import sys
import tempfile

VERIF = os.path.dirname(os.path.dirname(os.path.abspath(__file__)))
REPO = '/repo'
PROPS = [f'C{i:02d}' for i in range(1, 21)]


def sh(cmd, cwd=None):
  r = subprocess.run(cmd, cwd=cwd, capture_output=True, text=True)
  return r.returncode, r.stdout, r.stderr


def main():
  src, sid = sys.argv[1], sys.argv[2]
  store_as = sys.argv[3] if len(sys.argv) > 3 else sid
  patch = os.path.join(src, f'patch_{sid}.diff')
  demo = os.path.join(src, f'demo_{sid}.py')
  with open(os.path.join(src, f'meta_{sid}.json')) as f:
    am = json.load(f)
  tmp = tempfile.mkdtemp(prefix='fdlstatic-seed-')
  checks = {}
  try:
    shutil.copytree(os.path.join(REPO, 'fiddle'), os.path.join(tmp, 'fiddle'),
                    ignore=shutil.ignore_patterns('__pycache__', '*.pyc'))
    c, _, _ = sh(['/venv/bin/python', demo], cwd=tmp)
    rc, _, err = sh(['git', 'apply', patch], cwd=tmp)
    if rc != 0:
      sys.exit(f'{sid}: patch does not apply: {err[-300:]}')
    p, _, _ = sh(['/venv/bin/python', demo], cwd=tmp)
    if c != 0 or p == 0:
      sys.exit(f'{sid}: NOT CONFIRMED demo clean rc={c} patched rc={p}')

    def one(pid):
      env = dict(os.environ, FDLSTATIC_NO_EVIDENCE='1', FDLSTATIC_REPO=tmp)
      r = subprocess.run(['/venv/bin/python', '-B', '-m', 'fdlstatic.main',
                          pid, '--repo', tmp, '--no-evidence'], cwd=VERIF,
                         env=env, capture_output=True, text=True)
      lines = [l for l in (r.stdout + r.stderr).splitlines()
               if l.startswith(('[', 'ANALYSIS-ERROR'))]
      return pid, {'rc': r.returncode, 'reports': [l[:260] for l in lines[:4]]}

    with concurrent.futures.ThreadPoolExecutor(max_workers=10) as ex:
      for pid, v in ex.map(one, PROPS):
        checks[pid] = v
  finally:
    shutil.rmtree(tmp, ignore_errors=True)
  det = [k for k, v in checks.items() if v['rc'] == 1]
  err = [k for k, v in checks.items() if v['rc'] not in (0, 1)]
  d = os.path.join(VERIF, 'seeded', store_as)
  os.makedirs(d, exist_ok=True)
  shutil.copy(patch, os.path.join(d, 'patch.diff'))
  shutil.copy(demo, os.path.join(d, 'demo.py'))
  meta = {
      'id': store_as,
      'author_id': sid,
      'property': am.get('property', sid.split('_')[0]),
      'summary': am.get('summary', ''),
      'mechanism': am.get('mechanism', ''),
      'needs': am.get('needs', ''),
      'author': 'independent sub-agent given only the property text and a '
                'scratch worktree',
      'author_tests_passed': am.get('tests_passed', ''),
      'confirmed_by_me': {
          'demo_on_clean_tree_rc': c,
          'demo_on_patched_tree_rc': p,
          'how': 'tools/ingest_seed_scratch.py: scratch copy of /repo/fiddle; '
                 'demo.py in it; git apply patch.diff; demo.py again; all 20 '
                 'checks with --repo <copy>',
          'test_suite': 're-run by me with the patch applied in a scratch '
                        'worktree, see suite_rerun',
      },
      'detected_by_first': ','.join(det) or 'none',
      'first_reports': {k: checks[k]['reports'][:2] for k in det},
  }
  if err:
    meta['analysis_error_first'] = {k: checks[k] for k in err}
  with open(os.path.join(d, 'meta.json'), 'w') as f:
    json.dump(meta, f, indent=1)
    f.write('\n')
  print(f'{store_as}: confirmed (clean rc={c}, patched rc={p}); detected by '
        f'{",".join(det) or "none"}' + (f'; ANALYSIS-ERROR {err}' if err else ''))


if __name__ == '__main__':
  main()
