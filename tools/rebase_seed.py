#!/venv/bin/python
"""Re-applies a seeded patch to the current /repo HEAD after a `fix:` commit
touched nearby lines (patch -p1 with fuzz), keeps the author's diff as
patch.as_written.diff, regenerates patch.diff against HEAD, and re-confirms the
demo both ways with tools/try_seed.py.

usage: tools/rebase_seed.py <seeded id> [...]
"""
import json
import os
import shutil
import subprocess
import sys
import tempfile

VERIF = os.path.dirname(os.path.dirname(os.path.abspath(__file__)))


def rebase(sid):
  d = os.path.join(VERIF, 'seeded', sid)
  src = os.path.join(d, 'patch.diff')
  r = subprocess.run(['git', '-C', '/repo', 'apply', '--check', src],
                     capture_output=True, text=True)
  if r.returncode == 0:
    print(f'{sid}: applies as is')
    return True
  tmp = tempfile.mkdtemp(prefix='rebase-')
  try:
    for side in ('a', 'b'):
      subprocess.run(f'git -C /repo archive HEAD fiddle | tar -x -C {tmp}/{side}'
                     if os.makedirs(os.path.join(tmp, side)) is None else '',
                     shell=True, check=True)
    r = subprocess.run(['patch', '-p1', '-F3', '--no-backup-if-mismatch', '-i',
                        src], cwd=os.path.join(tmp, 'b'), capture_output=True,
                       text=True)
    if r.returncode != 0:
      print(f'{sid}: patch(1) could not re-apply it:\n{r.stdout[-400:]}')
      return False
    r = subprocess.run(['diff', '-ruN', 'a', 'b'], cwd=tmp, capture_output=True,
                       text=True)
    new = []
    for line in r.stdout.splitlines(keepends=True):
      if line.startswith('diff -ruN'):
        _, _, a, b = line.split()
        new.append(f'diff --git {a} {b}\n')
      elif line.startswith(('--- a/', '+++ b/')):
        new.append(line.split('\t')[0] + '\n')
      else:
        new.append(line)
    if not os.path.exists(os.path.join(d, 'patch.as_written.diff')):
      shutil.copy(src, os.path.join(d, 'patch.as_written.diff'))
    with open(src, 'w') as f:
      f.writelines(new)
  finally:
    shutil.rmtree(tmp, ignore_errors=True)
  r = subprocess.run([os.path.join(VERIF, 'tools', 'try_seed.py'), src, '--demo',
                      os.path.join(d, 'demo.py')], capture_output=True, text=True)
  body = r.stdout[r.stdout.index('{'):r.stdout.rindex('}') + 1]
  res = json.loads(body)
  ok = res.get('demo_clean_rc') == 0 and res.get('demo_patched_rc') not in (0, None)
  mp = os.path.join(d, 'meta.json')
  with open(mp) as f:
    m = json.load(f)
  head = subprocess.run(['git', '-C', '/repo', 'log', '--format=%h', '-1'],
                        capture_output=True, text=True).stdout.strip()
  m['rebased'] = (f'patch.diff re-applied with patch(1) to /repo {head} after '
                  'fix commits touched nearby lines; the author\'s diff is '
                  'patch.as_written.diff; demo re-confirmed: clean rc '
                  f'{res.get("demo_clean_rc")}, patched rc '
                  f'{res.get("demo_patched_rc")}')
  if not ok:
    m['rebased'] += ' - NOT CONFIRMED any more (the fix removed the ground it needs)'
  with open(mp, 'w') as f:
    json.dump(m, f, indent=1)
    f.write('\n')
  print(f'{sid}: rebased on {head}; demo clean rc={res.get("demo_clean_rc")} '
        f'patched rc={res.get("demo_patched_rc")}' + ('' if ok else '  NOT CONFIRMED'))
  return ok


if __name__ == '__main__':
  for s in sys.argv[1:]:
    rebase(s)
