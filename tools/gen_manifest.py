#!/venv/bin/python
"""Regenerates MANIFEST.json from fdlstatic/rules/*: a property is claimed iff

its rule module exists and defines MANIFEST = dict(text=..., note=..., technique=...).
Unclaimed properties are listed under not_applicable with NOT_APPLICABLE reasons.
"""
import importlib
import json
import os
import sys

VERIF = os.path.dirname(os.path.dirname(os.path.abspath(__file__)))
sys.path.insert(0, VERIF)

NOT_APPLICABLE = {}
try:
  from fdlstatic.not_applicable import NOT_APPLICABLE  # type: ignore
except Exception:
  pass

props = [json.loads(l) for l in open(os.path.join(VERIF, 'properties.jsonl'))]
checks, na = [], []
for p in props:
  pid = p['id']
  path = os.path.join(VERIF, 'fdlstatic', 'rules', pid.lower() + '.py')
  if os.path.exists(path):
    m = importlib.import_module(f'fdlstatic.rules.{pid.lower()}')
    info = getattr(m, 'MANIFEST', None)
    if info:
      checks.append({
          'property_id': pid,
          'quick_cmd': f'./check {pid} --tier quick',
          'thorough_cmd': f'./check {pid} --tier thorough',
          'evidence_file': f'/verif/evidence/{pid}.json',
          'replay_cmd_template': './check --replay {path}',
          'engine': 'fdlstatic',
          'level_claimed': {
              'category': 'other',
              'text': info['text'],
              'design_ref': info.get('design_ref', f'DESIGN.md section 4 ({pid})'),
          },
          'level_note': info['note'],
          'technique': info['technique'],
      })
      continue
  na.append({'property_id': pid,
             'reason': NOT_APPLICABLE.get(pid, 'check not built yet (work in progress; DESIGN.md section 4 lists the planned static clauses)')})

manifest = {
    'version': 1,
    'setup_cmd': '/venv/bin/python -m compileall -q fdlstatic selftest tools',
    'hooks': {
        'guard': 'GOOGLE_FIDDLE_VERIF',
        'enable': 'no hooks: the checks parse /repo\'s working tree with ast on every run and never import or execute it',
        'baseline_off_cmd': 'cd /repo && /venv/bin/python -m pytest -ra -q -p no:cacheprovider --timeout=900 --continue-on-collection-errors',
        'source_commits': [],
        'add_only': True,
    },
    'engines': [{
        'name': 'fdlstatic',
        'path': '/verif/fdlstatic',
        'serves_properties': [c['property_id'] for c in checks],
        'kind_free_text': 'repository-specific static analysis over Python ast: resolved symbol table and call graph, statement-level CFG with exceptional edges and duplicated finally blocks, forward dataflow (ownership/aliasing, key-kind, None-ness), table-agreement and dispatch-exhaustiveness rules, regex/template language inclusion',
    }],
    'checks': checks,
    'not_applicable': na,
    'notes': 'exit 0 = all obligations discharged (KNOWN-FINDING lines for findings listed in known_findings.json); exit 1 + VIOLATION line = an obligation failed that is not listed; exit 2 + ANALYSIS-ERROR = the analysis could not be carried out (anchor vanished, parse error). thorough = quick rules plus the two-way self-test of the checker on scratch copies (selftest/run.py).',
}
json.dump(manifest, open(os.path.join(VERIF, 'MANIFEST.json'), 'w'), indent=1)
print(f'{len(checks)} checks, {len(na)} not_applicable')
