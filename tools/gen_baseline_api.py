"""Writes fdlstatic/baseline_api.txt: the qualified names of the functions and
methods without a leading underscore in /repo's committed tree (git HEAD).

The table is only consulted when a second view is built (fdlstatic/inline.py):
a public-looking function that is *not* in it was introduced by the change
under analysis and is read as a helper of its callers; functions of the
reference tree keep their identity.  Expansion is behaviour-preserving either
way - the table only selects what is expanded.
"""
import ast
import os
import subprocess
import sys

REPO = sys.argv[1] if len(sys.argv) > 1 else '/repo'
OUT = os.path.join(os.path.dirname(os.path.dirname(os.path.abspath(__file__))),
                   'fdlstatic', 'baseline_api.txt')


def main():
  files = subprocess.run(['git', '-C', REPO, 'ls-tree', '-r', '--name-only',
                          'HEAD', 'fiddle'], capture_output=True, text=True,
                         check=True).stdout.split()
  names = set()
  for p in files:
    if not p.endswith('.py') or p.endswith('_test.py'):
      continue
    src = subprocess.run(['git', '-C', REPO, 'show', f'HEAD:{p}'],
                         capture_output=True, text=True, check=True).stdout
    mod = p[:-3].replace('/', '.')
    if mod.endswith('.__init__'):
      mod = mod[:-len('.__init__')]
    tree = ast.parse(src)

    def visit(body, prefix):
      for st in body:
        if isinstance(st, (ast.FunctionDef, ast.AsyncFunctionDef)):
          if not st.name.startswith('_'):
            names.add(f'{prefix}.{st.name}')
        elif isinstance(st, ast.ClassDef):
          visit(st.body, f'{prefix}.{st.name}')
        elif isinstance(st, (ast.If, ast.Try)):
          for fld in ('body', 'orelse', 'finalbody'):
            visit(getattr(st, fld, []), prefix)

    visit(tree.body, mod)
  with open(OUT, 'w') as f:
    f.write('\n'.join(sorted(names)) + '\n')
  print(f'{len(names)} names -> {OUT}')


if __name__ == '__main__':
  main()
