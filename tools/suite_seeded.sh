#!/bin/bash
# re-runs the pinned suite with each seeded patch in a scratch worktree (/tmp/wt/suite, removed at the end);
# writes seeded/<id>/suite.txt for those that lack it
WT=/tmp/wt/suite
git -C /repo worktree add -q --detach $WT HEAD 2>/dev/null
for d in /verif/seeded/*/; do
  id=$(basename $d)
  if [ -f $d/suite.txt ]; then continue; fi
  git -C $WT checkout -q -- . ; git -C $WT clean -fdq
  if ! git -C $WT apply $d/patch.diff; then echo "APPLY-FAILED" > $d/suite.txt; continue; fi
  (cd $WT && /venv/bin/python -m pytest -q -p no:cacheprovider -n 10 fiddle 2>&1 | grep -E "passed|failed" | tail -1) > $d/suite.txt
  (cd $WT && /venv/bin/python -m pytest -q -p no:cacheprovider -n 10 fiddle 2>&1 | grep -E "^FAILED" ) >> $d/suite.txt
  git -C $WT checkout -q -- .
done
git -C /repo worktree remove --force $WT
echo ALLDONE
