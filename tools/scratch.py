#!/venv/bin/python
"""Debug aid: a scratch copy of /repo's fiddle/ with one stored patch applied.

usage: tools/scratch.py benign/C04_1 [--view '{"helpers": true}'] [--show QUALNAME]
                        [--check C04] [--keep]
Prints the scratch directory (with --keep), the unparsed function in the given
view, and/or the output of a check forced to that single view.
"""
import argparse, ast, importlib, json, os, shutil, subprocess, sys, tempfile
VERIF = os.path.dirname(os.path.dirname(os.path.abspath(__file__)))
sys.path.insert(0, VERIF)
ap = argparse.ArgumentParser()
ap.add_argument('case')
ap.add_argument('--view', default='null')
ap.add_argument('--show', action='append', default=[])
ap.add_argument('--check')
ap.add_argument('--keep', action='store_true')
a = ap.parse_args()
tmp = tempfile.mkdtemp(prefix='fdlstatic-scratch-')
try:
  shutil.copytree('/repo/fiddle', tmp + '/fiddle',
                  ignore=shutil.ignore_patterns('__pycache__'))
  r = subprocess.run(['git', 'apply', os.path.join(VERIF, a.case, 'patch.diff')],
                     cwd=tmp, capture_output=True, text=True)
  if r.returncode:
    print(r.stderr)
    sys.exit(2)
  view = json.loads(a.view)
  from fdlstatic.ctx import Ctx
  from fdlstatic import report
  from fdlstatic.model import AnalysisError
  ctx = Ctx(tmp, expand=view or False)
  for s_ in ctx.p.inlined:
    print('  view:', s_)
  for q in a.show:
    print(ast.unparse(ctx.p.func(q).node))
  if a.check:
    mod = importlib.import_module(f'fdlstatic.rules.{a.check.lower()}')
    rs = report.RuleSet(a.check)
    try:
      mod.run(ctx, rs, 'quick')
      for o in report.unlisted(rs):
        print(f'[{o.rule}] {o.loc} {o.construct}: {o.detail}')
      print('vacuous:', report.vacuous(rs))
    except AnalysisError as e:
      print('ANALYSIS-ERROR', e)
  if a.keep:
    print(tmp)
finally:
  if not a.keep:
    shutil.rmtree(tmp, ignore_errors=True)
