#!/venv/bin/python
"""Applies a seeded change to /repo, runs checks, and always reverts.

usage: tools/try_seed.py <patch.diff> [--demo demo.py] [--props C01,C05 | --all]
Prints, per property checked, whether the check raised a VIOLATION.
"""
import argparse
import json
import os
import subprocess
import sys

VERIF = os.path.dirname(os.path.dirname(os.path.abspath(__file__)))
REPO = '/repo'


def sh(cmd, cwd=None):
  r = subprocess.run(cmd, cwd=cwd, shell=isinstance(cmd, str),
                     capture_output=True, text=True)
  return r.returncode, (r.stdout + r.stderr)


def main():
  ap = argparse.ArgumentParser()
  ap.add_argument('patch')
  ap.add_argument('--demo')
  ap.add_argument('--props')
  ap.add_argument('--all', action='store_true')
  a = ap.parse_args()
  props = a.props.split(',') if a.props else []
  if a.all:
    props = [json.loads(l)['id'] for l in open(os.path.join(VERIF, 'properties.jsonl'))]
  rc, out = sh(['git', '-C', REPO, 'status', '--porcelain'])
  if out.strip():
    sys.exit('refusing: /repo working tree is not clean')
  result = {'patch': a.patch, 'checks': {}}
  if a.demo:
    rc0, _ = sh(['/venv/bin/python', a.demo], cwd=REPO)
    result['demo_clean_rc'] = rc0
  rc, out = sh(['git', '-C', REPO, 'apply', a.patch])
  if rc != 0:
    sys.exit(f'patch does not apply: {out}')
  try:
    if a.demo:
      rc1, o = sh(['/venv/bin/python', a.demo], cwd=REPO)
      result['demo_patched_rc'] = rc1
    for p in props:
      env = dict(os.environ, FDLSTATIC_NO_EVIDENCE='1')
      r = subprocess.run(['/venv/bin/python', '-B', '-m', 'fdlstatic.main', p,
                          '--no-evidence'], cwd=VERIF, env=env,
                         capture_output=True, text=True)
      o = r.stdout + r.stderr
      lines = [l for l in o.splitlines() if l.startswith('[')]
      result['checks'][p] = {'rc': r.returncode,
                             'reports': [l[:260] for l in lines[:4]]}
  finally:
    sh(['git', '-C', REPO, 'checkout', '--', '.'])
    sh(['git', '-C', REPO, 'clean', '-fdq', 'fiddle'])
  print(json.dumps(result, indent=1))
  detected = [p for p, v in result['checks'].items() if v['rc'] == 1]
  print('DETECTED-BY:', ','.join(detected) or 'none')


if __name__ == '__main__':
  main()
