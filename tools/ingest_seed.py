#!/venv/bin/python
"""Confirms one independently written change and stores it under seeded/<id>/.

usage: tools/ingest_seed.py <dir with patch_<id>.diff demo_<id>.py meta_<id>.json> <id> [<id to store under>]

The change is applied to /repo (git apply), the author's demo run with and
without it, every check run against it, and /repo restored (tools/try_seed.py).
It is kept only if the demo passes on the unchanged tree and fails with the
change.  The pinned suite is re-run separately (tools/suite_seeded.sh).
"""
import json
import os
import shutil
import subprocess
import sys

VERIF = os.path.dirname(os.path.dirname(os.path.abspath(__file__)))


def main():
  src, sid = sys.argv[1], sys.argv[2]
  store_as = sys.argv[3] if len(sys.argv) > 3 else sid
  patch = os.path.join(src, f'patch_{sid}.diff')
  demo = os.path.join(src, f'demo_{sid}.py')
  with open(os.path.join(src, f'meta_{sid}.json')) as f:
    am = json.load(f)
  r = subprocess.run([os.path.join(VERIF, 'tools', 'try_seed.py'), patch,
                      '--demo', demo, '--all'], capture_output=True, text=True)
  if r.returncode != 0:
    sys.exit(f'{sid}: try_seed failed: {r.stdout[-500:]}{r.stderr[-500:]}')
  body = r.stdout[r.stdout.index('{'):r.stdout.rindex('}') + 1]
  res = json.loads(body)
  c, p = res.get('demo_clean_rc'), res.get('demo_patched_rc')
  if c != 0 or p == 0:
    sys.exit(f'{sid}: NOT CONFIRMED demo clean rc={c} patched rc={p}')
  det = [k for k, v in res['checks'].items() if v['rc'] == 1]
  err = [k for k, v in res['checks'].items() if v['rc'] not in (0, 1)]
  d = os.path.join(VERIF, 'seeded', store_as)
  os.makedirs(d, exist_ok=True)
  shutil.copy(patch, os.path.join(d, 'patch.diff'))
  shutil.copy(demo, os.path.join(d, 'demo.py'))
  meta = {
      'id': store_as,
      'author_id': sid,
      'property': am.get('property', sid.split('_')[0]),
      'summary': am.get('summary', ''),
      'mechanism': am.get('mechanism', ''),
      'needs': am.get('needs', ''),
      'author': 'independent sub-agent given only the property text and a '
                'scratch worktree',
      'author_tests_passed': am.get('tests_passed', ''),
      'confirmed_by_me': {
          'demo_on_clean_tree_rc': c,
          'demo_on_patched_tree_rc': p,
          'how': 'tools/try_seed.py: git -C /repo apply patch.diff; cd /repo '
                 '&& /venv/bin/python demo.py; all 20 ./check runs; git -C '
                 '/repo checkout -- . ; demo on the clean tree',
          'test_suite': 're-run by me with the patch applied in a scratch '
                        'worktree, see suite_rerun',
      },
      'detected_by_first': ','.join(det) or 'none',
      'first_reports': {k: res['checks'][k]['reports'][:2] for k in det},
  }
  if err:
    meta['analysis_error_first'] = {k: res['checks'][k] for k in err}
  with open(os.path.join(d, 'meta.json'), 'w') as f:
    json.dump(meta, f, indent=1)
    f.write('\n')
  print(f'{store_as}: confirmed (clean rc={c}, patched rc={p}); detected by '
        f'{",".join(det) or "none"}' + (f'; ANALYSIS-ERROR {err}' if err else ''))


if __name__ == '__main__':
  main()
