#!/venv/bin/python
"""Re-evaluates every kept behaviour-preserving refactoring (benign/<id>/)
against all checks on scratch copies: every check must be silent (exit 0, no
VIOLATION).  Writes meta.json "not_silent" and benign/INDEX.md.

usage: tools/eval_benign.py [--only C05_2,...] [-j N]
"""
from __future__ import annotations

import argparse
import concurrent.futures
import glob
import json
import os
import shutil
import subprocess
import sys
import tempfile

VERIF = os.path.dirname(os.path.dirname(os.path.abspath(__file__)))
REPO = os.environ.get('FDLSTATIC_REPO', '/repo')
PROPS = [f'C{i:02d}' for i in range(1, 21)]


def evaluate(sid):
  d = os.path.join(VERIF, 'benign', sid)
  tmp = tempfile.mkdtemp(prefix='fdlstatic-benign-')
  out = {}
  try:
    shutil.copytree(os.path.join(REPO, 'fiddle'), os.path.join(tmp, 'fiddle'),
                    ignore=shutil.ignore_patterns('__pycache__', '*.pyc'))
    r = subprocess.run(['git', 'apply', os.path.join(d, 'patch.diff')],
                       cwd=tmp, capture_output=True, text=True)
    if r.returncode != 0:
      return sid, {'error': 'patch does not apply: ' + r.stderr[-200:]}
    for prop in PROPS:
      env = dict(os.environ, FDLSTATIC_REPO=tmp, FDLSTATIC_NO_EVIDENCE='1')
      r = subprocess.run(
          ['/venv/bin/python', '-B', '-m', 'fdlstatic.main', prop, '--repo',
           tmp, '--no-evidence'], cwd=VERIF, env=env, capture_output=True,
          text=True, timeout=600)
      lines = [l for l in r.stdout.splitlines() if l.startswith(
          ('[', 'ANALYSIS-ERROR'))]
      if r.returncode != 0 or 'VIOLATION' in r.stdout:
        out[prop] = {'rc': r.returncode, 'reports': [l[:300] for l in lines[:3]]}
  finally:
    shutil.rmtree(tmp, ignore_errors=True)
  return sid, out


def main():
  ap = argparse.ArgumentParser()
  ap.add_argument('--only')
  ap.add_argument('-j', type=int, default=8)
  ap.add_argument('-v', action='store_true')
  a = ap.parse_args()
  sids = sorted(os.path.basename(os.path.dirname(p)) for p in glob.glob(
      os.path.join(VERIF, 'benign', '*', 'meta.json')))
  if a.only:
    sids = [s for s in sids if s in a.only.split(',')]
  n_loud = 0
  with concurrent.futures.ThreadPoolExecutor(max_workers=a.j) as ex:
    for sid, out in ex.map(evaluate, sids):
      mp = os.path.join(VERIF, 'benign', sid, 'meta.json')
      with open(mp) as f:
        meta = json.load(f)
      if 'error' in out:
        meta['not_silent'] = {'error': out['error']}
        print(sid, 'ERROR', out['error'][:120])
      else:
        meta['not_silent'] = out
        if out:
          n_loud += 1
        print(f'{sid}: ' + ('silent' if not out else 'NOT SILENT: ' + ', '.join(
            f'{p}(rc={v["rc"]})' for p, v in out.items())))
        if a.v:
          for p, v in out.items():
            for l in v['reports'][:2]:
              print('     ', p, l[:230])
      with open(mp, 'w') as f:
        json.dump(meta, f, indent=1)
        f.write('\n')
  rows = []
  for mp in sorted(glob.glob(os.path.join(VERIF, 'benign', '*', 'meta.json'))):
    with open(mp) as f:
      m = json.load(f)
    ns = m.get('not_silent')
    first = m.get('first_not_silent', {})
    rows.append((m['id'], m.get('kind', '')[:40], m.get('summary', '').replace(
        '|', '/').replace('\n', ' ')[:200], ', '.join(sorted(first)) or '-',
                 'silent' if ns == {} else ('?' if ns is None else ', '.join(ns))))
  with open(os.path.join(VERIF, 'benign', 'INDEX.md'), 'w') as f:
    f.write('# Independently written behaviour-preserving refactorings\n\n'
            'Each row is one refactoring written by a sub-agent that saw only '
            'the property text (asked for changes a maintainer would merge as '
            '"no behaviour change"), confirmed here: the author\'s equivalence '
            'script prints identical output with and without it and the '
            'pinned suite passes. Every check must stay silent on it. `first` '
            '= checks that were not silent when it arrived (false alarms or '
            'exit 2), `now` = after the checkers were corrected.\n\n'
            '| id | kind | refactoring | first | now |\n|---|---|---|---|---|\n')
    for r in rows:
      f.write('| ' + ' | '.join(r) + ' |\n')
    f.write(f'\n{sum(1 for r in rows if r[4] == "silent")} of {len(rows)} silent.\n')
  print(f'{len(sids) - n_loud} of {len(sids)} silent')


if __name__ == '__main__':
  sys.exit(main())
